#!/usr/bin/env bash
# usage: tools/seeded_isolated.sh <patch.diff | seeded-dir-name> <check ids...>
# Like tools/seeded.sh, but without touching /repo or /verif: works on copies under $SB (default /tmp/verif-sb), so it
# can be used while a long run reads /repo. The copy of the harness depends on the copy of the repository; its
# target directory is kept between calls (only kiki and the harness are rebuilt). Remove $SB when done.
set -u
cd "$(dirname "$0")/.."
SB="${SB:-/tmp/verif-sb}"
src="$1"; shift
[ -f "$src" ] || src="$PWD/seeded/$src/patch.diff"
[ -f "$src" ] || { echo "no patch $src"; exit 2; }
mkdir -p "$SB"
rsync -a --delete --exclude target /repo/ "$SB/repo/"
git -C "$SB/repo" checkout -q -- . 2>/dev/null
rsync -a --delete --exclude harness/target --exclude harness/fuzz --exclude .work --exclude replays --exclude .git --exclude evidence /verif/ "$SB/verif/"
mkdir -p "$SB/verif/evidence"
sed -i "s|path = \"/repo/kiki\"|path = \"$SB/repo/kiki\"|" "$SB/verif/harness/Cargo.toml"
git -C "$SB/repo" apply "$src" || { echo "patch does not apply"; exit 2; }
for id in "$@"; do
    s=$(date +%s)
    out=$(cd "$SB/verif" && timeout 1200 ./check.sh "$id" "${TIER:-quick}" 2>"$SB/stderr-$id")
    code=$?
    e=$(date +%s)
    first=$(grep -a -A2 -m1 -- '--- violation' "$SB/stderr-$id" | tr '\n' ' ' | cut -c1-300)
    echo "$id exit=$code wall=$((e-s))s $first"
done
