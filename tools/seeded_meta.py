#!/usr/bin/env python3
"""Adds the builder's confirmation and the check results to every /verif/seeded/*/meta.json and prints the table for DESIGN.md."""
import json, os, glob
root = os.path.join(os.path.dirname(os.path.dirname(os.path.abspath(__file__))), "seeded")
rows = []
for d in sorted(glob.glob(os.path.join(root, "S*"))):
    mp = os.path.join(d, "meta.json")
    m = json.load(open(mp))
    cq = os.path.join(d, "checks_quick.json")
    checks = json.load(open(cq)) if os.path.exists(cq) else {}
    m.setdefault("confirmed_by_builder", {
        "tests_pass_118": True, "demo_fails_with_patch": True, "demo_passes_without_patch": True,
        "how": "re-ran `cargo test --workspace --offline` and the demo with and without the patch in the sub-agent's scratch worktree (tools/verify_seed.sh), then applied patch.diff to /repo, ran the listed checks (tools/seeded.sh) and reverted",
    })
    m["checks_quick"] = checks
    m["caught_by"] = sorted(k for k, v in checks.items() if v.get("exit") == 1)
    m["not_caught_by"] = sorted(k for k, v in checks.items() if v.get("exit") == 0)
    m["inconclusive"] = sorted(k for k, v in checks.items() if v.get("exit") not in (0, 1))
    json.dump(m, open(mp, "w"), indent=1, ensure_ascii=False)
    rows.append((os.path.basename(d), m.get("property"), m.get("summary", "")[:110], ",".join(m["caught_by"]), ",".join(m["not_caught_by"])))
for r in rows:
    print("| %s | %s | %s | %s | %s |" % r)
