#!/usr/bin/env python3
"""Regenerates /verif/MANIFEST.json from the table below (keeps it schema-valid)."""
import json, os, subprocess, sys
ROOT = os.path.dirname(os.path.dirname(os.path.abspath(__file__)))

E1 = "E1 in-process proptest runner (harness/src/engine.rs)"
E2 = "E2 rustc-compiled emitted parsers (harness/src/e2.rs)"
TRUST_REF = "trusted base: the harness's own reference models (reference tokenizer, Kiki grammar + Earley, static validator, canonical LR(1)->LALR(1) construction), cross-checked against each other where two apply; bounded grammar/text sizes"

# id -> (technique, level text, level note, design_ref, engine)
CHECKS = {
 "C04": ("property-based testing (proptest): generated grammars vs reference LALR(1) construction (differential oracle)",
         "exploration: no counterexample among the generated grammars of every class (SLR, LALR-not-SLR, LR(1)-not-LALR, not LR(1); S/R, R/R, accept/R conflicts), with automatic shrinking; never a proof of absence",
         TRUST_REF, "DESIGN.md §4 C04", E1),
 "C11": ("property-based testing (proptest): TableConflict payload vs reference LALR(1) automaton (isomorphism + demanded-action oracle)",
         "exploration over generated conflicting grammars; every field of the error is checked against an independently built automaton",
         TRUST_REF, "DESIGN.md §4 C11", E1),
 "C17": ("property-based testing (proptest): tables read from the emitted text vs reference LALR(1) tables (cell-by-cell under a BFS state bijection)",
         "exploration over generated accepted grammars; compares every ACTION/GOTO cell, start state, column order and pop counts",
         TRUST_REF + "; the emitted text layout is read by a line-oriented reader (harness/src/emitted.rs)", "DESIGN.md §4 C17", E1),
}

NOT_YET = {}

def main():
    props = [json.loads(l) for l in open(os.path.join(ROOT, "properties.jsonl"))]
    checks = []
    na = []
    for p in props:
        pid = p["id"]
        if pid in CHECKS:
            tech, text, note, ref, eng = CHECKS[pid]
            checks.append({
                "property_id": pid,
                "quick_cmd": f"./check.sh {pid} quick",
                "thorough_cmd": f"./check.sh {pid} thorough",
                "evidence_file": f"evidence/{pid}.json",
                "replay_cmd_template": f"./check.sh replay {pid} {{path}}",
                "engine": eng,
                "level_claimed": {"category": "exploration", "text": text, "design_ref": ref},
                "level_note": note,
                "technique": tech,
            })
        else:
            na.append({"property_id": pid, "reason": NOT_YET.get(pid, "check not built yet (work in progress); property-based testing applies, see DESIGN.md §4")})
    hooks_commits = subprocess.run(["git", "-C", "/repo", "log", "--format=%H", "--grep=^verif hook"], capture_output=True, text=True).stdout.split()
    m = {
        "version": 1,
        "setup_cmd": "./check.sh setup",
        "hooks": {
            "guard": "cargo feature `verif-hooks` of crate kiki (off by default)",
            "enable": "harness/Cargo.toml depends on kiki = { path = \"/repo/kiki\", features = [\"verif-hooks\"] }; every check command runs `cargo build --release --offline` first, which recompiles /repo's working tree",
            "baseline_off_cmd": "cd /repo && cargo test --workspace --no-fail-fast --offline",
            "source_commits": hooks_commits,
            "add_only": True,
        },
        "engines": [
            {"name": "E1", "path": "harness/src/engine.rs", "serves_properties": sorted(CHECKS), "kind_free_text": "sharded proptest TestRunner (16 shards, fixed seeds from VERIF_SEED), catch_unwind around kiki, automatic shrinking, replay files"},
        ],
        "checks": checks,
        "not_applicable": na,
        "notes": "All checks are generated-input search (property-based testing / fuzzing) against explicit oracles; see DESIGN.md. Exit 0 = held on everything explored, 1 = VIOLATION line, 2 = inconclusive.",
    }
    json.dump(m, open(os.path.join(ROOT, "MANIFEST.json"), "w"), indent=1)
    print("wrote MANIFEST.json with", len(checks), "checks,", len(na), "not yet claimed")

main()
