#!/usr/bin/env bash
# Entry point of the verification machinery.
#   ./check.sh setup                     build the harness (and, if nightly cargo-fuzz works, the fuzz targets)
#   ./check.sh <C01..C18> quick|thorough run one property check (rebuilds from /repo's current working tree first)
#   ./check.sh replay <id> <file>        re-run one saved case
# Exit codes: 0 property held on everything explored; 1 a VIOLATION line was printed; 2 inconclusive / harness problem.
set -u
cd "$(dirname "$0")"
ROOT="$(pwd)"
export CARGO_NET_OFFLINE=true
export VERIF_ROOT="$ROOT"
mkdir -p "$ROOT/.work"

build_harness() {
    # cargo fingerprints the path dependency on /repo/kiki, so an edited /repo is recompiled here
    if ! (cd "$ROOT/harness" && cargo build --release --offline >"$ROOT/.work/build.log" 2>&1); then
        echo "harness build failed (see $ROOT/.work/build.log)" >&2
        tail -n 30 "$ROOT/.work/build.log" >&2
        return 1
    fi
}

# C07 also runs its child-process stages against kiki built in cargo's dev profile (unoptimised, debug assertions,
# overflow checks: what a build script gets by default). A failure to build it only skips those stages.
build_debug_worker() {
    (cd "$ROOT/harness" && cargo build --offline >"$ROOT/.work/build-debug.log" 2>&1) || \
        { echo "dev-profile worker does not build (see .work/build-debug.log); C07 skips its debug-build stages and says so in its evidence" >&2; rm -f "$ROOT/harness/target/debug/verif"; }
}

case "${1:-}" in
setup)
    build_harness || exit 2
    build_debug_worker
    # E3 (thorough tiers only): cargo-fuzz targets; no sanitizer (kiki has no unsafe code, ASan costs ~10x)
    if [ -d "$ROOT/harness/fuzz" ]; then
        if (cd "$ROOT/harness" && cargo +nightly fuzz build -O -s none >"$ROOT/.work/fuzz-build.log" 2>&1); then
            echo "fuzz targets built"
        else
            echo "fuzz build unavailable; thorough tiers will skip the libFuzzer part and say so in their evidence (see .work/fuzz-build.log)" >&2
        fi
    fi
    echo "setup ok"
    ;;
replay)
    [ $# -ge 3 ] || { echo "usage: $0 replay <id> <file>" >&2; exit 2; }
    build_harness || exit 2
    [ "$2" = "C07" ] && build_debug_worker
    exec "$ROOT/harness/target/release/verif" replay "$2" "$3"
    ;;
C[0-9][0-9])
    id="$1"
    tier="${2:-${VERIF_TIER:-quick}}"
    build_harness || { echo "INCONCLUSIVE property=$id harness does not build against the current /repo tree"; exit 2; }
    [ "$id" = "C07" ] && build_debug_worker
    if [ "$tier" = "thorough" ] && [ -d "$ROOT/harness/fuzz" ]; then
        # the fuzz targets link kiki too: rebuild them from the current tree (cargo fingerprints make this a no-op when nothing changed)
        (cd "$ROOT/harness" && cargo +nightly fuzz build -O -s none >"$ROOT/.work/fuzz-build.log" 2>&1) || \
            { echo "fuzz targets do not build; removing stale binaries so that the run records the E3 part as skipped" >&2; rm -rf "$ROOT/harness/fuzz/target/x86_64-unknown-linux-gnu/release/"{text_frontend,grammar_struct,oset_ops,hash_header,raw_struct}; }
    fi
    exec "$ROOT/harness/target/release/verif" check "$id" --tier "$tier"
    ;;
*)
    echo "usage: $0 setup | <C01..C18> quick|thorough | replay <id> <file>" >&2
    exit 2
    ;;
esac
