//! G6 — source text generators: decorated valid files, token-level edits,
//! token soup, character soup, byte mutations.

use crate::ast::*;
use crate::gen::pick;
use crate::layout::{self, Chooser};
use crate::spec::{Naming, Spec};
use proptest::collection::vec;
use proptest::prelude::*;

pub const UPPER_POOL: [&str; 36] = [
    "A", "B", "Foo", "Bar", "X1", "_0", "__", "_A", "Z", "Expr", "Node", "State", "S", "T", "Tok", "Token", "Eof", "Start_", "Structs", "Enum_",
    "Terminal_", "_1_0", "Aa", "AB", "Q", "Action", "_9Z", "R0",
    // names that differ only in case, or by a digit suffix
    "FOO", "FoO", "AA", "Ab", "TOK", "NODE", "State2", "A2",
];
pub const FIELD_POOL: [&str; 24] = [
    "a", "b", "foo", "x1", "_0", "__", "_a", "z", "inner", "left", "right", "nodes", "states", "t0", "node", "n", "t", "start_", "_1", "aB", "ab", "fOO",
    "fOo", "a2",
];

fn unique(base: &str, taken: &mut Vec<String>) -> String {
    let mut name = base.to_string();
    let mut k = 0;
    while taken.contains(&name) {
        k += 1;
        name = format!("{base}_{k}");
    }
    taken.push(name.clone());
    name
}

#[derive(Clone, Copy, Debug)]
pub struct DecorOpts {
    pub attrs: bool,
    pub types: bool,
    pub pool_names: bool,
    pub max_type_depth: usize,
}

/// A valid naming for `spec` chosen by `ch`: pool names (made unique), 0..4 marked attributes per
/// declaration, random payload type expressions.
pub fn decorate(spec: &Spec, ch: &mut Chooser, o: DecorOpts) -> Naming {
    let mut nm = Naming::conventional(spec);
    if o.pool_names && !ch.is_trivial() {
        let mut top: Vec<String> = vec![];
        nm.term_enum = unique(UPPER_POOL[ch.pick(UPPER_POOL.len())], &mut top);
        for n in nm.nts.iter_mut() {
            *n = unique(UPPER_POOL[ch.pick(UPPER_POOL.len())], &mut top);
        }
        for t in nm.terms.iter_mut() {
            *t = unique(UPPER_POOL[ch.pick(UPPER_POOL.len())], &mut top);
        }
        for vs in nm.variants.iter_mut() {
            let mut taken = vec![];
            for v in vs.iter_mut() {
                *v = unique(UPPER_POOL[ch.pick(UPPER_POOL.len())], &mut taken);
            }
        }
        for per_nt in nm.fields.iter_mut() {
            for per_var in per_nt.iter_mut() {
                let mut taken = vec![];
                for f in per_var.iter_mut() {
                    *f = unique(FIELD_POOL[ch.pick(FIELD_POOL.len())], &mut taken);
                }
            }
        }
    }
    if o.pool_names && !ch.is_trivial() && ch.pick(48) == 47 {
        // length thresholds: one name of the file becomes 100 .. 70 000 characters long (it stays unique)
        let n = [100, 255, 256, 300, 1000, 5000, 70_000][ch.pick(7)];
        let tail = "x".repeat(n);
        let nn = nm.nts.len();
        let nt = nm.terms.len();
        match ch.pick(4) {
            0 => {
                let i = ch.pick(nn);
                nm.nts[i].push_str(&tail);
            }
            1 if nt > 0 => {
                let i = ch.pick(nt);
                nm.terms[i].push_str(&tail);
            }
            2 => nm.term_enum.push_str(&tail),
            _ => {
                // a variant or a field name
                let i = ch.pick(nn);
                if !nm.variants[i].is_empty() && ch.pick(2) == 0 {
                    let j = ch.pick(nm.variants[i].len());
                    nm.variants[i][j].push_str(&tail);
                } else if let Some(per_var) = nm.fields[i].iter_mut().find(|v| !v.is_empty()) {
                    let k = ch.pick(per_var.len());
                    per_var[k].push_str(&tail);
                } else {
                    nm.nts[i].push_str(&tail);
                }
            }
        }
    }
    if o.attrs && !ch.is_trivial() {
        let mut id = 0;
        // a fresh marked attribute, or (1 in 5) a byte-identical repeat of the previous one on the same declaration,
        // or (1 in 10) a short unmarked attribute from a tiny pool (so that equal texts also occur on different declarations)
        let mut next_attr = |ch: &mut Chooser, list: &mut Vec<String>, id: &mut usize| {
            let k = ch.pick(10);
            if k < 2 && !list.is_empty() {
                let prev = list.last().unwrap().clone();
                list.push(prev);
            } else if k == 2 {
                list.push(["#[a]", "#[]", "#[derive(Debug)]", "#[x(y)]"][ch.pick(4)].to_string());
            } else {
                let mut a = layout::gen_attr(ch, *id).0;
                if ch.pick(64) == 63 {
                    // a long attribute (300 / 5000 / 70 000 bytes, partly multi-byte), brackets stay balanced
                    let n = [20usize, 330, 4600][ch.pick(3)];
                    a.insert_str(2, &"doc = (é long) ".repeat(n));
                }
                list.push(a);
                *id += 1;
            }
        };
        for a in nm.nt_attrs.iter_mut() {
            let n = [0, 0, 1, 1, 2, 3, 4][ch.pick(7)];
            for _ in 0..n {
                next_attr(ch, a, &mut id);
            }
        }
        let n = [0, 1, 2, 4][ch.pick(4)];
        for _ in 0..n {
            next_attr(ch, &mut nm.term_attrs, &mut id);
        }
    }
    if o.types && !ch.is_trivial() {
        for t in nm.term_types.iter_mut() {
            *t = layout::gen_type(ch, 0, o.max_type_depth);
        }
    }
    nm
}

// ---------------------------------------------------------------------------
// token-level material

pub fn soup_atom(ch: &mut Chooser) -> Atom {
    let k = ch.pick(ALL_KINDS.len() + 6);
    let kind = if k < ALL_KINDS.len() { ALL_KINDS[k] } else { [TokKind::Ident, TokKind::TerminalIdent, TokKind::Ident, TokKind::LCurly, TokKind::RCurly, TokKind::Colon][k - ALL_KINDS.len()] };
    match kind {
        TokKind::Ident => {
            if ch.pick(2) == 0 {
                Atom::ident(UPPER_POOL[ch.pick(UPPER_POOL.len())])
            } else {
                Atom::ident(FIELD_POOL[ch.pick(FIELD_POOL.len())])
            }
        }
        TokKind::TerminalIdent => Atom::term(UPPER_POOL[ch.pick(UPPER_POOL.len())]),
        TokKind::OuterAttribute => {
            let id = ch.pick(100);
            Atom::attr(&layout::gen_attr(ch, id).0)
        }
        k => Atom::fixed(k),
    }
}

/// 1..n token-level edits: delete / insert / replace / swap / duplicate / truncate.
pub fn edit_atoms(atoms: &mut Vec<Atom>, edits: &[(u8, u16, u16)], ch: &mut Chooser) {
    for (kind, a, b) in edits {
        let n = atoms.len();
        match kind % 6 {
            0 => {
                if n > 0 {
                    atoms.remove(pick(*a, n));
                }
            }
            1 => {
                let at = pick(*a, n + 1);
                atoms.insert(at, soup_atom(ch));
            }
            2 => {
                if n > 0 {
                    let at = pick(*a, n);
                    atoms[at] = soup_atom(ch);
                }
            }
            3 => {
                if n > 1 {
                    let i = pick(*a, n);
                    let j = pick(*b, n);
                    atoms.swap(i, j);
                }
            }
            4 => {
                if n > 0 {
                    let i = pick(*a, n);
                    let x = atoms[i].clone();
                    atoms.insert(i, x);
                }
            }
            _ => {
                atoms.truncate(pick(*a, n + 1));
            }
        }
    }
}

pub const SOUP_CHARS: [&str; 77] = [
    // more classes a Unicode predicate could let through next to an identifier: other numeric categories (No, Nl),
    // connector punctuation and other XID_Continue characters, format characters, an emoji
    "²", "Ⅷ", "·", "‿", "＿", "℘", "\u{00AD}", "\u{2060}", "🙂", "\u{200D}", "１",
    // look-alikes that are NOT whitespace for char::is_whitespace: must be rejected
    "\u{200B}", "\u{FEFF}", "\u{001C}", "\u{180E}",
    // rare classes: the remaining information separators, the largest code points, the replacement character, a
    // combining mark, characters whose case mappings change length, a non-ASCII digit and letter, NUL, DEL
    "\u{001D}", "\u{001E}", "\u{001F}", "\u{10FFFF}", "\u{FFFF}", "\u{FFFD}", "\u{0301}", "ß", "İ", "ı", "ﬁ", "٣", "Ａ", "\u{0}", "\u{7F}",
    // rare white space (char::is_whitespace): must be skipped
    "\u{0085}", "\u{000B}", "\u{000C}",
    "$", "_", "a", "Z", "9", ":", "::", "/", "//", "#", "#[", "[", "]", "(", ")", "{", "}", "<", ">", ",", "\"", "@", "!", " ", "\n", "\r", "\t", "é",
    "€", "𝄞", "\u{00A0}", "\u{2028}", "start", "struct", "enum", "terminal", "$start", "$_", "x", "Foo", "$Bar", "0", ";", "-",
];

pub fn char_soup(choices: &[u16]) -> String {
    let mut s = String::new();
    for c in choices {
        s.push_str(SOUP_CHARS[pick(*c, SOUP_CHARS.len())]);
    }
    s
}

/// Byte-level mutation of a text, kept valid UTF-8 (operates on chars).
pub fn mutate_chars(text: &str, muts: &[(u8, u16, u16)]) -> String {
    let mut cs: Vec<char> = text.chars().collect();
    for (k, a, b) in muts {
        let n = cs.len();
        match k % 4 {
            0 => {
                if n > 0 {
                    cs.remove(pick(*a, n));
                }
            }
            1 => {
                let piece = SOUP_CHARS[pick(*b, SOUP_CHARS.len())];
                let at = pick(*a, n + 1);
                for (i, c) in piece.chars().enumerate() {
                    cs.insert(at + i, c);
                }
            }
            2 => {
                if n > 0 {
                    let piece = SOUP_CHARS[pick(*b, SOUP_CHARS.len())];
                    let at = pick(*a, n);
                    cs[at] = piece.chars().next().unwrap();
                }
            }
            _ => {
                cs.truncate(pick(*a, n + 1));
            }
        }
    }
    cs.into_iter().collect()
}

// ---------------------------------------------------------------------------
// proptest strategies for the raw material

pub fn choices(max: usize) -> impl Strategy<Value = Vec<u16>> {
    vec(any::<u16>(), 0..=max)
}

pub fn token_edits(max: usize) -> impl Strategy<Value = Vec<(u8, u16, u16)>> {
    vec((0u8..6, any::<u16>(), any::<u16>()), 0..=max)
}
