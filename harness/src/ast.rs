//! Syntactic model of a Kiki file (independent of kiki's own data types).
//!
//! `RFile` is what the generators build and what the reference parser (R2)
//! returns. Identifiers optionally carry the byte position at which they were
//! found (`pos == usize::MAX` for "not positioned", i.e. a generated file that
//! has not been rendered/re-read yet).

pub const NOPOS: usize = usize::MAX;

#[derive(Clone, Debug, PartialEq, Eq, PartialOrd, Ord, Hash)]
pub struct Id {
    pub name: String,
    /// Byte offset of the identifier. For `$T` this is the offset of `T`
    /// (dollar-less), as kiki documents for terminal positions.
    pub pos: usize,
}

impl Id {
    pub fn new(s: &str) -> Id {
        Id { name: s.to_string(), pos: NOPOS }
    }
    pub fn at(s: &str, pos: usize) -> Id {
        Id { name: s.to_string(), pos }
    }
}

#[derive(Clone, Debug, PartialEq, Eq, PartialOrd, Ord, Hash)]
pub enum RSym {
    N(Id),
    T(Id),
}

impl RSym {
    pub fn id(&self) -> &Id {
        match self {
            RSym::N(i) | RSym::T(i) => i,
        }
    }
}

#[derive(Clone, Debug, PartialEq, Eq)]
pub enum RFieldset {
    Empty,
    /// (field name or None for `_`, symbol)
    Named(Vec<(Option<Id>, RSym)>),
    /// (used?, symbol); `used == false` is written `_: sym`
    Tuple(Vec<(bool, RSym)>),
}

impl RFieldset {
    pub fn symbols(&self) -> Vec<&RSym> {
        match self {
            RFieldset::Empty => vec![],
            RFieldset::Named(f) => f.iter().map(|(_, s)| s).collect(),
            RFieldset::Tuple(f) => f.iter().map(|(_, s)| s).collect(),
        }
    }
    pub fn used_mask(&self) -> Vec<bool> {
        match self {
            RFieldset::Empty => vec![],
            RFieldset::Named(f) => f.iter().map(|(n, _)| n.is_some()).collect(),
            RFieldset::Tuple(f) => f.iter().map(|(u, _)| *u).collect(),
        }
    }
    pub fn len(&self) -> usize {
        self.symbols().len()
    }
}

#[derive(Clone, Debug, PartialEq, Eq)]
pub enum RType {
    Unit,
    Path(Vec<Id>),
    Generic(Vec<Id>, Vec<RType>),
}

impl RType {
    /// Token texts of the type, in order (the canonical "token-for-token" form).
    pub fn tokens(&self, out: &mut Vec<String>) {
        match self {
            RType::Unit => {
                out.push("(".into());
                out.push(")".into());
            }
            RType::Path(p) => path_tokens(p, out),
            RType::Generic(p, args) => {
                path_tokens(p, out);
                out.push("<".into());
                for (i, a) in args.iter().enumerate() {
                    if i > 0 {
                        out.push(",".into());
                    }
                    a.tokens(out);
                }
                out.push(">".into());
            }
        }
    }
    pub fn token_vec(&self) -> Vec<String> {
        let mut v = vec![];
        self.tokens(&mut v);
        v
    }
    /// A conventional rendering written by the harness itself (used in client code).
    pub fn render(&self) -> String {
        match self {
            RType::Unit => "()".into(),
            RType::Path(p) => p.iter().map(|i| i.name.clone()).collect::<Vec<_>>().join("::"),
            RType::Generic(p, a) => format!(
                "{}<{}>",
                p.iter().map(|i| i.name.clone()).collect::<Vec<_>>().join("::"),
                a.iter().map(|t| t.render()).collect::<Vec<_>>().join(", ")
            ),
        }
    }
    pub fn depth(&self) -> usize {
        match self {
            RType::Unit | RType::Path(_) => 0,
            RType::Generic(_, a) => 1 + a.iter().map(|t| t.depth()).max().unwrap_or(0),
        }
    }
    pub fn max_args(&self) -> usize {
        match self {
            RType::Unit | RType::Path(_) => 0,
            RType::Generic(_, a) => a.len().max(a.iter().map(|t| t.max_args()).max().unwrap_or(0)),
        }
    }
}

fn path_tokens(p: &[Id], out: &mut Vec<String>) {
    for (i, s) in p.iter().enumerate() {
        if i > 0 {
            out.push("::".into());
        }
        out.push(s.name.clone());
    }
}

#[derive(Clone, Debug, PartialEq, Eq)]
pub struct RAttr {
    pub src: String,
    pub pos: usize,
}

#[derive(Clone, Debug, PartialEq, Eq)]
pub enum RItem {
    Start(Id),
    Struct { attrs: Vec<RAttr>, name: Id, fs: RFieldset },
    Enum { attrs: Vec<RAttr>, name: Id, variants: Vec<(Id, RFieldset)> },
    Terminal { attrs: Vec<RAttr>, name: Id, variants: Vec<(Id, RType)> },
}

#[derive(Clone, Debug, PartialEq, Eq, Default)]
pub struct RFile {
    pub items: Vec<RItem>,
}

/// Lexical category of an atom (mirrors the documented token kinds).
#[derive(Clone, Copy, Debug, PartialEq, Eq, PartialOrd, Ord, Hash)]
pub enum TokKind {
    Underscore,
    Ident,
    TerminalIdent,
    OuterAttribute,
    StartKw,
    StructKw,
    EnumKw,
    TerminalKw,
    Colon,
    DoubleColon,
    Comma,
    LParen,
    RParen,
    LCurly,
    RCurly,
    LAngle,
    RAngle,
}

pub const ALL_KINDS: [TokKind; 17] = [
    TokKind::Underscore,
    TokKind::Ident,
    TokKind::TerminalIdent,
    TokKind::OuterAttribute,
    TokKind::StartKw,
    TokKind::StructKw,
    TokKind::EnumKw,
    TokKind::TerminalKw,
    TokKind::Colon,
    TokKind::DoubleColon,
    TokKind::Comma,
    TokKind::LParen,
    TokKind::RParen,
    TokKind::LCurly,
    TokKind::RCurly,
    TokKind::LAngle,
    TokKind::RAngle,
];

impl TokKind {
    pub fn index(self) -> usize {
        ALL_KINDS.iter().position(|k| *k == self).unwrap()
    }
    pub fn fixed_text(self) -> Option<&'static str> {
        Some(match self {
            TokKind::Underscore => "_",
            TokKind::StartKw => "start",
            TokKind::StructKw => "struct",
            TokKind::EnumKw => "enum",
            TokKind::TerminalKw => "terminal",
            TokKind::Colon => ":",
            TokKind::DoubleColon => "::",
            TokKind::Comma => ",",
            TokKind::LParen => "(",
            TokKind::RParen => ")",
            TokKind::LCurly => "{",
            TokKind::RCurly => "}",
            TokKind::LAngle => "<",
            TokKind::RAngle => ">",
            _ => return None,
        })
    }
}

/// A token as text: what a renderer writes and what the reference tokenizer reads.
#[derive(Clone, Debug, PartialEq, Eq, Hash)]
pub struct Atom {
    pub kind: TokKind,
    pub text: String,
}

impl Atom {
    pub fn fixed(kind: TokKind) -> Atom {
        Atom { kind, text: kind.fixed_text().unwrap().to_string() }
    }
    pub fn ident(s: &str) -> Atom {
        Atom { kind: TokKind::Ident, text: s.to_string() }
    }
    pub fn term(s: &str) -> Atom {
        Atom { kind: TokKind::TerminalIdent, text: format!("${s}") }
    }
    pub fn attr(s: &str) -> Atom {
        Atom { kind: TokKind::OuterAttribute, text: s.to_string() }
    }
}

fn sym_atoms(s: &RSym, out: &mut Vec<Atom>) {
    match s {
        RSym::N(i) => out.push(Atom::ident(&i.name)),
        RSym::T(i) => out.push(Atom::term(&i.name)),
    }
}

fn fieldset_atoms(fs: &RFieldset, out: &mut Vec<Atom>) {
    match fs {
        RFieldset::Empty => {}
        RFieldset::Named(fields) => {
            out.push(Atom::fixed(TokKind::LCurly));
            for (n, s) in fields {
                match n {
                    Some(id) => out.push(Atom::ident(&id.name)),
                    None => out.push(Atom::fixed(TokKind::Underscore)),
                }
                out.push(Atom::fixed(TokKind::Colon));
                sym_atoms(s, out);
            }
            out.push(Atom::fixed(TokKind::RCurly));
        }
        RFieldset::Tuple(fields) => {
            out.push(Atom::fixed(TokKind::LParen));
            for (used, s) in fields {
                if !*used {
                    out.push(Atom::fixed(TokKind::Underscore));
                    out.push(Atom::fixed(TokKind::Colon));
                }
                sym_atoms(s, out);
            }
            out.push(Atom::fixed(TokKind::RParen));
        }
    }
}

pub fn type_atoms(t: &RType, out: &mut Vec<Atom>) {
    match t {
        RType::Unit => {
            out.push(Atom::fixed(TokKind::LParen));
            out.push(Atom::fixed(TokKind::RParen));
        }
        RType::Path(p) => path_atoms(p, out),
        RType::Generic(p, args) => {
            path_atoms(p, out);
            out.push(Atom::fixed(TokKind::LAngle));
            for (i, a) in args.iter().enumerate() {
                if i > 0 {
                    out.push(Atom::fixed(TokKind::Comma));
                }
                type_atoms(a, out);
            }
            out.push(Atom::fixed(TokKind::RAngle));
        }
    }
}

fn path_atoms(p: &[Id], out: &mut Vec<Atom>) {
    for (i, s) in p.iter().enumerate() {
        if i > 0 {
            out.push(Atom::fixed(TokKind::DoubleColon));
        }
        out.push(Atom::ident(&s.name));
    }
}

impl RFile {
    /// The token list of this file, in order.
    pub fn atoms(&self) -> Vec<Atom> {
        let mut out = vec![];
        for item in &self.items {
            match item {
                RItem::Start(id) => {
                    out.push(Atom::fixed(TokKind::StartKw));
                    out.push(Atom::ident(&id.name));
                }
                RItem::Struct { attrs, name, fs } => {
                    for a in attrs {
                        out.push(Atom::attr(&a.src));
                    }
                    out.push(Atom::fixed(TokKind::StructKw));
                    out.push(Atom::ident(&name.name));
                    fieldset_atoms(fs, &mut out);
                }
                RItem::Enum { attrs, name, variants } => {
                    for a in attrs {
                        out.push(Atom::attr(&a.src));
                    }
                    out.push(Atom::fixed(TokKind::EnumKw));
                    out.push(Atom::ident(&name.name));
                    out.push(Atom::fixed(TokKind::LCurly));
                    for (vn, fs) in variants {
                        out.push(Atom::ident(&vn.name));
                        fieldset_atoms(fs, &mut out);
                    }
                    out.push(Atom::fixed(TokKind::RCurly));
                }
                RItem::Terminal { attrs, name, variants } => {
                    for a in attrs {
                        out.push(Atom::attr(&a.src));
                    }
                    out.push(Atom::fixed(TokKind::TerminalKw));
                    out.push(Atom::ident(&name.name));
                    out.push(Atom::fixed(TokKind::LCurly));
                    for (vn, ty) in variants {
                        out.push(Atom::term(&vn.name));
                        out.push(Atom::fixed(TokKind::Colon));
                        type_atoms(ty, &mut out);
                    }
                    out.push(Atom::fixed(TokKind::RCurly));
                }
            }
        }
        out
    }

    /// Same file with every position erased (for comparing a re-read file with
    /// the generated one).
    pub fn without_positions(&self) -> RFile {
        fn id(i: &Id) -> Id {
            Id::new(&i.name)
        }
        fn sym(s: &RSym) -> RSym {
            match s {
                RSym::N(i) => RSym::N(id(i)),
                RSym::T(i) => RSym::T(id(i)),
            }
        }
        fn fs(f: &RFieldset) -> RFieldset {
            match f {
                RFieldset::Empty => RFieldset::Empty,
                RFieldset::Named(v) => {
                    RFieldset::Named(v.iter().map(|(n, s)| (n.as_ref().map(id), sym(s))).collect())
                }
                RFieldset::Tuple(v) => RFieldset::Tuple(v.iter().map(|(u, s)| (*u, sym(s))).collect()),
            }
        }
        fn ty(t: &RType) -> RType {
            match t {
                RType::Unit => RType::Unit,
                RType::Path(p) => RType::Path(p.iter().map(id).collect()),
                RType::Generic(p, a) => RType::Generic(p.iter().map(id).collect(), a.iter().map(ty).collect()),
            }
        }
        fn attrs(a: &[RAttr]) -> Vec<RAttr> {
            a.iter().map(|x| RAttr { src: x.src.clone(), pos: NOPOS }).collect()
        }
        RFile {
            items: self
                .items
                .iter()
                .map(|it| match it {
                    RItem::Start(i) => RItem::Start(id(i)),
                    RItem::Struct { attrs: a, name, fs: f } => {
                        RItem::Struct { attrs: attrs(a), name: id(name), fs: fs(f) }
                    }
                    RItem::Enum { attrs: a, name, variants } => RItem::Enum {
                        attrs: attrs(a),
                        name: id(name),
                        variants: variants.iter().map(|(n, f)| (id(n), fs(f))).collect(),
                    },
                    RItem::Terminal { attrs: a, name, variants } => RItem::Terminal {
                        attrs: attrs(a),
                        name: id(name),
                        variants: variants.iter().map(|(n, t)| (id(n), ty(t))).collect(),
                    },
                })
                .collect(),
        }
    }

    pub fn nonterminal_items(&self) -> Vec<&RItem> {
        self.items.iter().filter(|i| matches!(i, RItem::Struct { .. } | RItem::Enum { .. })).collect()
    }
    pub fn terminal_items(&self) -> Vec<&RItem> {
        self.items.iter().filter(|i| matches!(i, RItem::Terminal { .. })).collect()
    }
    pub fn start_items(&self) -> Vec<&Id> {
        self.items
            .iter()
            .filter_map(|i| match i {
                RItem::Start(id) => Some(id),
                _ => None,
            })
            .collect()
    }
}

/// Simple one-space rendering (the "canonical" layout).
pub fn render_plain(atoms: &[Atom]) -> String {
    let mut s = String::new();
    for (i, a) in atoms.iter().enumerate() {
        if i > 0 {
            // an attribute must be followed by a token on any line; a space suffices
            s.push(' ');
        }
        s.push_str(&a.text);
    }
    s
}
