use kiki_verif::engine::{self, Ctx, Tier};
use kiki_verif::props;
use std::path::PathBuf;

fn usage() -> ! {
    eprintln!("usage: verif check <C01..C18> --tier quick|thorough\n       verif replay <id> <file>\n       verif worker <kind> ...");
    std::process::exit(2)
}

fn ctx(prop: &str, tier: Tier) -> Ctx {
    let seed = std::env::var("VERIF_SEED").ok().and_then(|s| s.trim().parse::<i64>().ok()).unwrap_or(0) as u64;
    let root = PathBuf::from(kiki_verif::gen::corpus_dir());
    let root = root.canonicalize().unwrap_or(root);
    let threads = std::env::var("VERIF_THREADS")
        .ok()
        .and_then(|s| s.parse().ok())
        .unwrap_or_else(|| std::thread::available_parallelism().map(|n| n.get()).unwrap_or(4).min(16));
    let scale = std::env::var("VERIF_SCALE").ok().and_then(|s| s.parse().ok()).unwrap_or(1.0);
    Ctx { prop: prop.to_string(), tier, seed, root, threads, scale, shrink_iters: 4000 }
}

fn main() {
    let args: Vec<String> = std::env::args().collect();
    if args.len() < 2 {
        usage();
    }
    match args[1].as_str() {
        "check" => {
            if args.len() < 3 {
                usage();
            }
            let id = args[2].as_str();
            let mut tier = match std::env::var("VERIF_TIER").as_deref() {
                Ok("thorough") => Tier::Thorough,
                _ => Tier::Quick,
            };
            let mut i = 3;
            while i < args.len() {
                if args[i] == "--tier" && i + 1 < args.len() {
                    tier = match args[i + 1].as_str() {
                        "quick" => Tier::Quick,
                        "thorough" => Tier::Thorough,
                        _ => usage(),
                    };
                    i += 1;
                }
                i += 1;
            }
            engine::install_quiet_panic_hook();
            let c = ctx(id, tier);
            engine::start_global_watchdog(&c.prop, &c.root);
            let code = props::run(&c);
            std::process::exit(code);
        }
        "replay" => {
            if args.len() < 4 {
                usage();
            }
            engine::install_quiet_panic_hook();
            let c = ctx(&args[2], Tier::Quick);
            engine::start_global_watchdog(&c.prop, &c.root);
            let code = props::replay(&c, &args[3]);
            std::process::exit(code);
        }
        "stress-times" => {
            engine::install_quiet_panic_hook();
            for tier in [Tier::Quick, Tier::Thorough] {
                for (name, text) in kiki_verif::props::total::stress_inputs(tier) {
                    let t = std::time::Instant::now();
                    let o = kiki_verif::outcome::generate(&text);
                    println!("{:?} {:>8.3}s {:>8} bytes  {}  -> {}", tier, t.elapsed().as_secs_f64(), text.len(), name, o.brief().chars().take(60).collect::<String>());
                }
            }
        }
        "scaled-times" => {
            // diagnostic: cost of the scaled grammar families at their maximum size
            engine::install_quiet_panic_hook();
            for kind in 0..kiki_verif::gen::SCALED_KINDS {
                for k in [kiki_verif::gen::SCALED_MAX[kind] / 3, kiki_verif::gen::SCALED_MAX[kind]] {
                    let spec = kiki_verif::gen::scaled_spec(kind, k, 0x1234);
                    let g = kiki_verif::props::common::from_spec(spec, kiki_verif::gen::Source::SeedEdits);
                    let t = std::time::Instant::now();
                    let o = kiki_verif::outcome::generate(&g.text);
                    let t_kiki = t.elapsed().as_secs_f64();
                    if let (Ok(dir), kiki_verif::outcome::Outcome::Ok(text)) = (std::env::var("VERIF_SCALED_DUMP"), &o) {
                        let _ = std::fs::write(format!("{dir}/{}_{k}.rs", kiki_verif::gen::SCALED_NAMES[kind].replace('-', "_")), text);
                    }
                    let t = std::time::Instant::now();
                    let a = kiki_verif::cfg::Analysis::new(&g.cfg);
                    let t_ref = t.elapsed().as_secs_f64();
                    let (lr1, lalr, ok) = match &a {
                        Ok(a) => (a.lr1.states.len(), a.lalr.states.len(), a.lalr_ok()),
                        Err(_) => (0, 0, false),
                    };
                    println!(
                        "{:<18} k={:<4} text={:>6}B nts={:>3} terms={:>3} rules={:>3} kiki={:.3}s {} ref={:.3}s lr1={} lalr={} lalr_ok={}",
                        kiki_verif::gen::SCALED_NAMES[kind], k, g.text.len(), g.spec.nts.len(), g.spec.n_terms, g.spec.n_rules(), t_kiki, o.brief(), t_ref, lr1, lalr, ok
                    );
                }
            }
        }
        "fuzz" => {
            // diagnostic (tools/fuzz_sensitivity.sh): one E3 campaign alone, no evidence written.
            //   verif fuzz <target> <prop> <runs_total>
            if args.len() < 5 {
                usage();
            }
            engine::install_quiet_panic_hook();
            let c = ctx(&args[3], Tier::Thorough);
            let target = args[2].as_str();
            let runs: u64 = args[4].parse().unwrap_or(100_000);
            let (max_len, seeds, dict) = match target {
                "text_frontend" => (2048, kiki_verif::fuzzrun::text_seeds(), true),
                "grammar_struct" => (300, vec![vec![0u8; 40], (0u8..200).collect()], false),
                "raw_struct" => (600, kiki_verif::fuzzrun::raw_seeds(), false),
                "hash_header" => (200, vec![b"// @sha256 abc\n".to_vec()], true),
                _ => (400, vec![vec![5, 1, 3, 1, 3, 4, 2, 3, 3, 1, 2, 3, 1, 1, 2, 1]], false),
            };
            let t = std::time::Instant::now();
            let camp = kiki_verif::fuzzrun::Campaign { target, prop: &args[3], runs_total: runs, max_len, seeds, dict };
            match kiki_verif::fuzzrun::campaign(&c, &camp) {
                None => {
                    println!("fuzz target {target} is not built");
                    std::process::exit(2);
                }
                Some(out) => {
                    let real: Vec<_> = out.failures.iter().filter(|f| !f.internal).collect();
                    println!("E3 target={target} prop={} executions={} failures={} (violations={}) wall_s={:.1}", args[3], out.stats.evaluations, out.failures.len(), real.len(), t.elapsed().as_secs_f64());
                    for f in out.failures.iter().take(5) {
                        println!("  {} {} :: {}", if f.internal { "internal" } else { "VIOLATION" }, f.kind, f.detail.lines().next().unwrap_or(""));
                    }
                    std::process::exit(if !real.is_empty() { 1 } else if !out.failures.is_empty() { 2 } else { 0 });
                }
            }
        }
        "worker" => {
            let code = props::worker(&args[2..]);
            std::process::exit(code);
        }
        _ => usage(),
    }
}
