#!/usr/bin/env bash
# Re-runs every seeded change against the check of the property it was aimed at (+ closely related ones).
cd "$(dirname "$0")/.."
declare -A extra=( [S01]="C04 C17" [S04]="C04 C17" [S06]="C07" [S07]="C01" [S11]="C08 C07" [S12]="C08" [S15]="C09 C08" [S17]="C06" [S18]="C04 C01 C03" [S20]="C01" [S21]="C13" [S22]="C04 C01" [S25]="C05" [S28]="C17" )
for d in seeded/S*; do
    n=$(basename $d); id=${n%%-*}; prop=$(echo $n | cut -d- -f2)
    rm -f $d/checks_quick.json
    echo "== $n"
    VERIF_CASE_TIMEOUT=20 VERIF_CONFIRM_TIMEOUT=30 tools/seeded.sh $n $prop ${extra[$id]:-}
done
