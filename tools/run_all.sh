#!/usr/bin/env bash
# Runs every check's quick (or given) tier on the current tree and prints one line per property.
cd "$(dirname "$0")/.."
tier="${1:-quick}"
fail=0
for i in 01 02 03 04 05 06 07 08 09 10 11 12 13 14 15 16 17 18; do
    id="C$i"
    start=$(date +%s.%N)
    out=$(./check.sh "$id" "$tier" 2>/dev/null)
    code=$?
    end=$(date +%s.%N)
    printf "%s exit=%d wall=%.1fs %s\n" "$id" "$code" "$(echo "$end - $start" | bc)" "$(echo "$out" | grep -E '^SUMMARY' | sed 's/SUMMARY property=[A-Z0-9]* //')"
    echo "$out" | grep -E '^(VIOLATION|INCONCLUSIVE)' | head -3
    [ "$code" -ne 0 ] && fail=1
done
exit $fail
