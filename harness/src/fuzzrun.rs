//! Runs fixed-work libFuzzer campaigns (E3) from the harness: several
//! processes of a pre-built cargo-fuzz target, each with its own fresh corpus
//! directory and seed; artifacts are re-judged in-process so that a crash
//! becomes an ordinary failure with a readable replay file.

use crate::engine::{hash_of, Ctx, Failure, RunOutcome, Stats};
use crate::fuzzapi;
use serde_json::{json, Value};
use std::path::PathBuf;
use std::process::{Command, Stdio};

pub fn target_path(ctx: &Ctx, target: &str) -> PathBuf {
    ctx.root.join("harness/fuzz/target/x86_64-unknown-linux-gnu/release").join(target)
}

pub struct Campaign<'a> {
    pub target: &'a str,
    pub prop: &'a str,
    pub runs_total: u64,
    pub max_len: usize,
    pub seeds: Vec<Vec<u8>>,
    pub dict: bool,
}

/// None = the fuzz targets are not built (nightly cargo-fuzz unavailable): the caller records that.
pub fn campaign(ctx: &Ctx, c: &Campaign) -> Option<RunOutcome> {
    let bin = target_path(ctx, c.target);
    if !bin.exists() {
        return None;
    }
    let jobs = ctx.threads.clamp(1, 8) as u64;
    let per = (c.runs_total + jobs - 1) / jobs;
    let base = ctx.root.join(".work").join(format!("fuzz-{}-{}-{}", c.prop, c.target, std::process::id()));
    let _ = std::fs::remove_dir_all(&base);
    let mut children = vec![];
    for j in 0..jobs {
        let dir = base.join(format!("job{j}"));
        let corpus = dir.join("corpus");
        let arts = dir.join("artifacts");
        let _ = std::fs::create_dir_all(&corpus);
        let _ = std::fs::create_dir_all(&arts);
        for (k, s) in c.seeds.iter().enumerate() {
            let _ = std::fs::write(corpus.join(format!("seed{k}")), s);
        }
        let mut cmd = Command::new(&bin);
        cmd.arg(&corpus)
            .arg(format!("-runs={per}"))
            .arg(format!("-seed={}", ctx.seed.wrapping_mul(31).wrapping_add(1 + j) % 0x7fff_ffff + 1))
            .arg(format!("-max_len={}", c.max_len))
            .arg("-len_control=0")
            .arg("-rss_limit_mb=4096")
            .arg("-timeout=120")
            .arg("-print_final_stats=1")
            .arg(format!("-artifact_prefix={}/", arts.display()));
        if c.dict {
            cmd.arg(format!("-dict={}", ctx.root.join("corpus/dict/kiki.dict").display()));
        }
        // stderr goes to a file: with a pipe the jobs block as soon as 64 KiB of libFuzzer's progress lines are
        // unread, i.e. all but the one being waited for — the campaign would run one job at a time
        let log = match std::fs::File::create(dir.join("stderr.log")) {
            Ok(f) => f,
            Err(e) => {
                return Some(RunOutcome {
                    stats: Stats::default(),
                    failures: vec![Failure::internal("fuzz-spawn", format!("cannot create log file: {e}"), Value::Null)],
                })
            }
        };
        cmd.env("VERIF_PROP", c.prop).stdout(Stdio::null()).stderr(Stdio::from(log));
        crate::engine::die_with_parent(&mut cmd);
        match cmd.spawn() {
            Ok(ch) => children.push((j, dir, ch)),
            Err(e) => {
                return Some(RunOutcome {
                    stats: Stats::default(),
                    failures: vec![Failure::internal("fuzz-spawn", format!("cannot start {}: {e}", bin.display()), Value::Null)],
                })
            }
        }
    }
    let mut st = Stats::default();
    let mut fails = vec![];
    for (j, dir, mut ch) in children {
        let status = match ch.wait() {
            Ok(s) => s,
            Err(e) => {
                fails.push(Failure::internal("fuzz-wait", e.to_string(), Value::Null));
                continue;
            }
        };
        let err_bytes = std::fs::read(dir.join("stderr.log")).unwrap_or_default();
        let err = String::from_utf8_lossy(&err_bytes);
        let stat = |k: &str| -> u64 {
            err.lines().find_map(|l| l.strip_prefix(k)).and_then(|v| v.trim().parse().ok()).unwrap_or(0)
        };
        let execs = stat("stat::number_of_executed_units:");
        let new_units = stat("stat::new_units_added:");
        st.evaluations += execs;
        *st.extra.entry("fuzz-executions".into()).or_insert(0) += execs;
        *st.extra.entry("fuzz-coverage-increasing-inputs".into()).or_insert(0) += new_units;
        let mut found = false;
        if let Ok(rd) = std::fs::read_dir(dir.join("artifacts")) {
            for e in rd.filter_map(|e| e.ok()) {
                let name = e.file_name().to_string_lossy().to_string();
                let Ok(data) = std::fs::read(e.path()) else { continue };
                found = true;
                if name.starts_with("crash-") {
                    match fuzzapi::judge_artifact(c.target, c.prop, &data) {
                        Err(f) => fails.push(f),
                        Ok(()) => {
                            let keep = ctx.root.join("replays").join(c.prop);
                            let _ = std::fs::create_dir_all(&keep);
                            let p = keep.join(format!("fuzz-{}-{:016x}.bin", c.target, hash_of(&data)));
                            let _ = std::fs::write(&p, &data);
                            let first = err.lines().find(|l| l.contains("FUZZ-") || l.contains("panicked")).unwrap_or("").to_string();
                            fails.push(Failure::internal(
                                "fuzz-crash-not-reproduced",
                                format!("libFuzzer job {j} of target {} crashed ({first}) but the input passes when judged in-process; kept at {}", c.target, p.display()),
                                json!({"artifact": p.display().to_string()}),
                            ));
                        }
                    }
                } else {
                    fails.push(Failure::internal(
                        "fuzz-resource",
                        format!("libFuzzer reported {name} for target {} (timeout / out of memory): inconclusive", c.target),
                        json!({"bytes_len": data.len()}),
                    ));
                }
            }
        }
        if !status.success() && !found {
            let tail: Vec<&str> = err.lines().rev().take(5).collect();
            fails.push(Failure::internal("fuzz-exit", format!("fuzz job {j} exited with {:?}: {}", status.code(), tail.join(" | ")), Value::Null));
        }
    }
    let _ = std::fs::remove_dir_all(&base);
    st.class_n(&format!("fuzz-target:{}", c.target), 1);
    Some(RunOutcome { stats: st, failures: fails })
}

/// Seeds for the text target: seed grammars, the repository's negative examples.
pub fn text_seeds() -> Vec<Vec<u8>> {
    let mut v: Vec<Vec<u8>> = crate::gen::seeds().iter().filter(|s| s.src.len() < 3000).map(|s| s.src.clone().into_bytes()).collect();
    if let Ok(rd) = std::fs::read_dir("/repo/kiki/src/examples/should_fail") {
        let mut files: Vec<_> = rd.filter_map(|e| e.ok()).map(|e| e.path()).collect();
        files.sort();
        for p in files {
            if let Ok(b) = std::fs::read(&p) {
                v.push(b);
            }
        }
    }
    v
}

/// Seeds for the structure-aware text target: all-zero, a ramp, and two fixed pseudo-random blocks.
pub fn raw_seeds() -> Vec<Vec<u8>> {
    let mut x: u32 = 0x9e37_79b9;
    let mut rnd = |n: usize| -> Vec<u8> {
        (0..n)
            .map(|_| {
                x ^= x << 13;
                x ^= x >> 17;
                x ^= x << 5;
                (x >> 8) as u8
            })
            .collect()
    };
    vec![vec![0u8; 120], (0u8..=255).collect(), rnd(300), rnd(500)]
}

/// The structure-aware companion campaign of a text-level property.
pub fn raw_campaign<'a>(prop: &'a str, runs_total: u64) -> Campaign<'a> {
    Campaign { target: "raw_struct", prop, runs_total, max_len: 600, seeds: raw_seeds(), dict: false }
}

/// Convenience: run a campaign and absorb it into a report, recording when the targets are not available.
pub fn run_into(ctx: &Ctx, rep: &mut crate::engine::Report, c: Campaign) {
    match campaign(ctx, &c) {
        Some(out) => rep.absorb(&format!("E3-libfuzzer-{}", c.target), out),
        None => rep.notes.push(format!(
            "E3 skipped: fuzz target {} is not built (cargo +nightly fuzz build failed or was not run by setup); this run covers the proptest part only",
            c.target
        )),
    }
}
