//! R1 — reference tokenizer, written from the documented lexical rules
//! (DESIGN.md Appendix A). Shares no code with kiki.

use crate::ast::TokKind;

#[derive(Clone, Debug, PartialEq, Eq)]
pub struct RTok {
    pub kind: TokKind,
    /// byte offset of the first byte of the token (`$` for terminal identifiers, `#` for attributes)
    pub start: usize,
    /// byte offset one past the last byte
    pub end: usize,
    /// exact source text of the token
    pub text: String,
}

impl RTok {
    /// identifier name (without `$` for terminal identifiers)
    pub fn name(&self) -> &str {
        if self.kind == TokKind::TerminalIdent {
            &self.text[1..]
        } else {
            &self.text
        }
    }
    /// position kiki documents for the token: dollar-less for terminal identifiers
    pub fn name_pos(&self) -> usize {
        if self.kind == TokKind::TerminalIdent {
            self.start + 1
        } else {
            self.start
        }
    }
}

#[derive(Clone, Debug, PartialEq, Eq)]
pub struct LexFail {
    /// every (byte index, character) report the documentation allows for this text
    pub admissible: Vec<(usize, Option<char>)>,
    /// tokens recognised before the failure
    pub tokens_before: Vec<RTok>,
    pub what: &'static str,
    /// byte offset at which the offending lexeme starts
    pub at: usize,
}

fn is_ident_start(c: char) -> bool {
    c.is_ascii_alphabetic() || c == '_'
}
fn is_ident_cont(c: char) -> bool {
    c.is_ascii_alphanumeric() || c == '_'
}

pub fn reserved_kind(s: &str) -> Option<TokKind> {
    Some(match s {
        "_" => TokKind::Underscore,
        "start" => TokKind::StartKw,
        "struct" => TokKind::StructKw,
        "enum" => TokKind::EnumKw,
        "terminal" => TokKind::TerminalKw,
        _ => return None,
    })
}

fn char_at(src: &str, p: usize) -> Option<char> {
    src[p..].chars().next()
}

pub fn tokenize(src: &str) -> Result<Vec<RTok>, LexFail> {
    let mut out: Vec<RTok> = vec![];
    let mut p = 0usize;
    let n = src.len();
    macro_rules! fail {
        ($what:expr, $($adm:expr),+) => {
            return Err(LexFail { admissible: vec![$($adm),+], tokens_before: out, what: $what, at: p })
        };
    }
    while p < n {
        let c = char_at(src, p).unwrap();
        let cl = c.len_utf8();
        if c.is_whitespace() {
            p += cl;
            continue;
        }
        if c == '/' {
            if src[p + 1..].starts_with('/') {
                // comment: up to (not including) the next '\n', or EOF
                match src[p..].find('\n') {
                    Some(off) => p += off,
                    None => p = n,
                }
                continue;
            }
            fail!("lone slash", (p, Some('/')));
        }
        if is_ident_start(c) {
            let mut e = p + 1;
            while e < n && is_ident_cont(char_at(src, e).unwrap()) {
                e += 1;
            }
            let text = &src[p..e];
            let kind = reserved_kind(text).unwrap_or(TokKind::Ident);
            out.push(RTok { kind, start: p, end: e, text: text.to_string() });
            p = e;
            continue;
        }
        if c == '$' {
            let next = char_at(src, p + 1);
            match next {
                Some(d) if is_ident_start(d) => {
                    let mut e = p + 2;
                    while e < n && is_ident_cont(char_at(src, e).unwrap()) {
                        e += 1;
                    }
                    let w = &src[p + 1..e];
                    if reserved_kind(w).is_some() {
                        fail!("reserved word after dollar", (e, char_at(src, e)));
                    }
                    out.push(RTok { kind: TokKind::TerminalIdent, start: p, end: e, text: src[p..e].to_string() });
                    p = e;
                    continue;
                }
                _ => fail!("lone dollar", (p, Some('$'))),
            }
        }
        if c == ':' {
            if src[p + 1..].starts_with(':') {
                out.push(RTok { kind: TokKind::DoubleColon, start: p, end: p + 2, text: "::".into() });
                p += 2;
            } else {
                out.push(RTok { kind: TokKind::Colon, start: p, end: p + 1, text: ":".into() });
                p += 1;
            }
            continue;
        }
        let punct = match c {
            ',' => Some(TokKind::Comma),
            '(' => Some(TokKind::LParen),
            ')' => Some(TokKind::RParen),
            '{' => Some(TokKind::LCurly),
            '}' => Some(TokKind::RCurly),
            '<' => Some(TokKind::LAngle),
            '>' => Some(TokKind::RAngle),
            _ => None,
        };
        if let Some(k) = punct {
            out.push(RTok { kind: k, start: p, end: p + 1, text: c.to_string() });
            p += 1;
            continue;
        }
        if c == '#' {
            if !src[p + 1..].starts_with('[') {
                fail!("lone pound", (p, Some('#')));
            }
            // attribute scan
            let mut q = p + 2;
            let mut stack: Vec<char> = vec!['['];
            let mut count = 1usize;
            let mut mismatch: Option<(usize, Option<char>)> = None;
            let mut closed_end: Option<usize> = None;
            let mut unclosed: Option<(usize, Option<char>)> = None;
            loop {
                if q >= n {
                    unclosed = Some((n, None));
                    break;
                }
                let d = char_at(src, q).unwrap();
                match d {
                    '\n' => {
                        unclosed = Some((q, Some('\n')));
                        break;
                    }
                    '(' | '[' | '{' => {
                        if mismatch.is_none() {
                            stack.push(d);
                        }
                        count += 1;
                    }
                    ')' | ']' | '}' => {
                        if mismatch.is_none() {
                            let top = *stack.last().unwrap();
                            let ok = matches!((top, d), ('(', ')') | ('[', ']') | ('{', '}'));
                            if ok {
                                stack.pop();
                            } else {
                                mismatch = Some((q, Some(d)));
                            }
                        }
                        count -= 1;
                        if count == 0 {
                            closed_end = Some(q + 1);
                            break;
                        }
                    }
                    _ => {}
                }
                q += d.len_utf8();
            }
            match (mismatch, closed_end, unclosed) {
                (None, Some(e), _) => {
                    out.push(RTok { kind: TokKind::OuterAttribute, start: p, end: e, text: src[p..e].to_string() });
                    p = e;
                    continue;
                }
                (m, _, u) => {
                    let mut adm = vec![];
                    if let Some(m) = m {
                        adm.push(m);
                    }
                    if let Some(u) = u {
                        adm.push(u);
                    }
                    return Err(LexFail { admissible: adm, tokens_before: out, what: "malformed attribute", at: p });
                }
            }
        }
        fail!("unknown character", (p, Some(c)));
    }
    Ok(out)
}

#[cfg(test)]
mod tests {
    use super::*;

    fn kinds(s: &str) -> Vec<TokKind> {
        tokenize(s).unwrap().into_iter().map(|t| t.kind).collect()
    }

    #[test]
    fn basics() {
        use TokKind::*;
        assert_eq!(kinds("start Foo"), vec![StartKw, Ident]);
        assert_eq!(kinds(":::"), vec![DoubleColon, Colon]);
        assert_eq!(kinds("a//x\n$b_1 _ _x"), vec![Ident, TerminalIdent, Underscore, Ident]);
        assert_eq!(kinds("#[a(b)[c]{d}]x"), vec![OuterAttribute, Ident]);
        assert_eq!(kinds("\u{2028}a\u{3000}"), vec![Ident]);
        assert_eq!(kinds("// only"), vec![]);
    }

    #[test]
    fn errors() {
        assert_eq!(tokenize("a / b").unwrap_err().admissible, vec![(2, Some('/'))]);
        assert_eq!(tokenize("$start x").unwrap_err().admissible, vec![(6, Some(' '))]);
        assert_eq!(tokenize("$_").unwrap_err().admissible, vec![(2, None)]);
        assert_eq!(tokenize("$").unwrap_err().admissible, vec![(0, Some('$'))]);
        assert_eq!(tokenize("ab #x").unwrap_err().admissible, vec![(3, Some('#'))]);
        assert_eq!(tokenize("é").unwrap_err().admissible, vec![(0, Some('é'))]);
        assert_eq!(tokenize("xx #[a)] y").unwrap_err().admissible, vec![(6, Some(')'))]);
        assert_eq!(tokenize("#[a\nb]").unwrap_err().admissible, vec![(3, Some('\n'))]);
        assert_eq!(tokenize("#[a(").unwrap_err().admissible, vec![(4, None)]);
        assert_eq!(tokenize("#[(]\n").unwrap_err().admissible, vec![(3, Some(']')), (4, Some('\n'))]);
    }
}
