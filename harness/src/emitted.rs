//! R5 — reader for the emitted Rust text. Works on the text only, never on
//! kiki's data structures, so a bug in the text templates is visible.

use std::collections::BTreeMap;

#[derive(Clone, Copy, Debug, PartialEq, Eq, PartialOrd, Ord, Hash)]
pub enum ECell {
    Shift(usize),
    Reduce(usize),
    Accept,
    Err,
}

#[derive(Clone, Debug, PartialEq, Eq)]
pub struct Emitted {
    pub start: usize,
    pub action: Vec<Vec<ECell>>,
    pub goto: Vec<Vec<Option<usize>>>,
    /// terminal name -> ACTION column (from the quasi-terminal kind enum); the end-of-input column is `eof_col`
    pub term_cols: Vec<(String, usize)>,
    pub eof_col: usize,
    /// nonterminal name -> GOTO column
    pub nt_cols: Vec<(String, usize)>,
    /// per rule kind index: (number of popped states, name of the produced nonterminal kind)
    pub rules: Vec<(usize, String)>,
    /// number of variants in the state enum
    pub n_state_variants: usize,
}

fn err<T>(msg: impl Into<String>) -> Result<T, String> {
    Err(msg.into())
}

/// Parses `X::S12` / `X::R3` → (X, prefix char, number)
fn parse_indexed_variant(s: &str, prefix: char) -> Result<(String, usize), String> {
    let Some(p) = s.rfind("::") else { return err(format!("no `::` in `{s}`")) };
    let (en, var) = (&s[..p], &s[p + 2..]);
    let Some(num) = var.strip_prefix(prefix) else { return err(format!("variant `{var}` lacks prefix {prefix}")) };
    let k: usize = num.parse().map_err(|_| format!("bad index in `{s}`"))?;
    Ok((en.to_string(), k))
}

struct StaticHeader {
    is_goto: bool,
    cols: usize,
    rows: usize,
}

fn parse_static_header(line: &str) -> Result<StaticHeader, String> {
    // static NAME: [[ELEM; C]; N] = [
    let Some(colon) = line.find(": [[") else { return err(format!("bad static header `{line}`")) };
    let rest = &line[colon + 4..];
    let Some(semi) = rest.find("; ") else { return err("bad static header (elem)") };
    let elem = &rest[..semi];
    let rest = &rest[semi + 2..];
    let Some(close) = rest.find("]; ") else { return err("bad static header (cols)") };
    let cols: usize = rest[..close].parse().map_err(|_| "bad column count".to_string())?;
    let rest = &rest[close + 3..];
    let Some(close2) = rest.find("] = [") else { return err("bad static header (rows)") };
    let rows: usize = rest[..close2].parse().map_err(|_| "bad row count".to_string())?;
    Ok(StaticHeader { is_goto: elem.starts_with("Option<"), cols, rows })
}

fn read_rows<'a>(lines: &[&'a str], mut i: usize) -> Result<(Vec<Vec<&'a str>>, usize), String> {
    let mut rows = vec![];
    let mut cur: Option<Vec<&str>> = None;
    loop {
        let Some(l) = lines.get(i) else { return err("unterminated table") };
        i += 1;
        if *l == "];" {
            if cur.is_some() {
                return err("row not closed");
            }
            return Ok((rows, i));
        }
        let t = l.trim();
        if t.is_empty() {
            // a table with zero columns renders an empty row body
            continue;
        }
        if t == "[" {
            if cur.is_some() {
                return err("nested row");
            }
            cur = Some(vec![]);
        } else if t == "]," {
            match cur.take() {
                Some(r) => rows.push(r),
                None => return err("row end without start"),
            }
        } else {
            let Some(cell) = t.strip_suffix(',') else { return err(format!("cell without comma: `{t}`")) };
            match cur.as_mut() {
                Some(r) => r.push(cell),
                None => return err("cell outside row"),
            }
        }
    }
}

fn parse_enum_block(lines: &[&str], mut i: usize) -> Result<(String, Vec<(String, usize)>, usize), String> {
    // lines[i] is `enum NAME {`
    let l = lines[i];
    let name = l.strip_prefix("enum ").and_then(|r| r.strip_suffix(" {")).ok_or_else(|| format!("bad enum header `{l}`"))?;
    i += 1;
    let mut vars = vec![];
    loop {
        let Some(l) = lines.get(i) else { return err("unterminated enum") };
        i += 1;
        if *l == "}" {
            break;
        }
        let t = l.trim();
        if t.is_empty() {
            continue;
        }
        // `Name = idx,`  or `Name(…),` / `Name,` (Action enum)
        if let Some(eq) = t.find(" = ") {
            let n = &t[..eq];
            let v = t[eq + 3..].strip_suffix(',').ok_or("enum variant without comma")?;
            let k: usize = v.parse().map_err(|_| format!("bad discriminant `{t}`"))?;
            vars.push((n.to_string(), k));
        } else {
            vars.push((t.trim_end_matches(',').to_string(), usize::MAX));
        }
    }
    Ok((name.to_string(), vars, i))
}

pub fn read(text: &str) -> Result<Emitted, String> {
    let lines: Vec<&str> = text.lines().collect();
    let Some(parse_at) = lines.iter().position(|l| l.starts_with("pub fn parse<")) else {
        return err("no `pub fn parse<` line");
    };
    // start state
    let mut start = None;
    for l in &lines[parse_at..] {
        if let Some(r) = l.trim().strip_prefix("let mut states = vec![") {
            let Some(inner) = r.strip_suffix("];") else { return err("bad states line") };
            start = Some(parse_indexed_variant(inner, 'S')?.1);
            break;
        }
    }
    let Some(start) = start else { return err("no start state line") };

    // derive'd helper enums after parse, in template order
    let mut derived: Vec<(String, Vec<(String, usize)>)> = vec![];
    let mut i = parse_at;
    while i < lines.len() {
        if lines[i] == "#[derive(Clone, Copy, Debug)]" && lines.get(i + 1).map_or(false, |l| l.starts_with("enum ")) {
            let (name, vars, next) = parse_enum_block(&lines, i + 1)?;
            derived.push((name, vars));
            i = next;
        } else {
            i += 1;
        }
    }
    if derived.len() != 5 {
        return err(format!("expected 5 derived helper enums, found {}", derived.len()));
    }
    let quasi = &derived[0].1;
    let nts = &derived[1].1;
    let states = &derived[2].1;
    let action_enum = &derived[3].0;
    let rule_kinds = &derived[4].1;
    if quasi.is_empty() {
        return err("quasi-terminal kind enum is empty");
    }
    let (eof_name, eof_col) = quasi.last().unwrap().clone();
    let _ = eof_name;
    let term_cols: Vec<(String, usize)> = quasi[..quasi.len() - 1].to_vec();
    for (k, (n, d)) in states.iter().enumerate() {
        if *n != format!("S{k}") || *d != k {
            return err(format!("state enum variant {k} is `{n} = {d}`"));
        }
    }
    for (k, (n, d)) in rule_kinds.iter().enumerate() {
        if *n != format!("R{k}") || *d != k {
            return err(format!("rule kind enum variant {k} is `{n} = {d}`"));
        }
    }

    // tables
    let mut action = None;
    let mut goto = None;
    let mut i = 0;
    while i < lines.len() {
        if lines[i].starts_with("static ") {
            let h = parse_static_header(lines[i])?;
            let (rows, next) = read_rows(&lines, i + 1)?;
            if rows.len() != h.rows {
                return err(format!("table declares {} rows, has {}", h.rows, rows.len()));
            }
            for r in &rows {
                if r.len() != h.cols {
                    return err(format!("table declares {} columns, a row has {}", h.cols, r.len()));
                }
            }
            if h.is_goto {
                let mut t = vec![];
                for r in rows {
                    let mut row = vec![];
                    for c in r {
                        if c == "None" {
                            row.push(None);
                        } else if let Some(inner) = c.strip_prefix("Some(").and_then(|x| x.strip_suffix(')')) {
                            row.push(Some(parse_indexed_variant(inner, 'S')?.1));
                        } else {
                            return err(format!("bad goto cell `{c}`"));
                        }
                    }
                    t.push(row);
                }
                if goto.replace(t).is_some() {
                    return err("two goto tables");
                }
            } else {
                let mut t = vec![];
                for r in rows {
                    let mut row = vec![];
                    for c in r {
                        let Some(rest) = c.strip_prefix(action_enum.as_str()).and_then(|x| x.strip_prefix("::")) else {
                            return err(format!("action cell `{c}` does not use enum `{action_enum}`"));
                        };
                        let cell = if rest == "Accept" {
                            ECell::Accept
                        } else if rest == "Err" {
                            ECell::Err
                        } else if let Some(inner) = rest.strip_prefix("Shift(").and_then(|x| x.strip_suffix(')')) {
                            ECell::Shift(parse_indexed_variant(inner, 'S')?.1)
                        } else if let Some(inner) = rest.strip_prefix("Reduce(").and_then(|x| x.strip_suffix(')')) {
                            ECell::Reduce(parse_indexed_variant(inner, 'R')?.1)
                        } else {
                            return err(format!("bad action cell `{c}`"));
                        };
                        row.push(cell);
                    }
                    t.push(row);
                }
                if action.replace(t).is_some() {
                    return err("two action tables");
                }
            }
            i = next;
        } else {
            i += 1;
        }
    }
    let Some(action) = action else { return err("no action table") };
    let Some(goto) = goto else { return err("no goto table") };

    // pop_and_reduce arms: `<RuleKind>::R<i> => <fn>(states, nodes),`
    let mut arm_fn: BTreeMap<usize, String> = BTreeMap::new();
    if let Some(p) = lines.iter().position(|l| l.starts_with("fn pop_and_reduce(")) {
        let mut j = p + 1;
        while j < lines.len() && lines[j] != "}" {
            let t = lines[j].trim();
            if let Some(arrow) = t.find(" => ") {
                let (lhs, rhs) = (&t[..arrow], &t[arrow + 4..]);
                let k = parse_indexed_variant(lhs, 'R')?.1;
                let Some(par) = rhs.find('(') else { return err("bad pop_and_reduce arm") };
                arm_fn.insert(k, rhs[..par].to_string());
            }
            j += 1;
        }
    } else {
        return err("no pop_and_reduce");
    }
    // reduce fns (found by the names used in the pop_and_reduce arms)
    let mut fn_info: BTreeMap<String, (usize, String)> = BTreeMap::new();
    for name in arm_fn.values() {
        let head = format!("fn {name}(");
        let Some(i) = lines.iter().position(|l| l.starts_with(&head)) else { continue };
        let mut pops = 0usize;
        let mut kind = None;
        let mut j = i + 1;
        while j < lines.len() && lines[j] != "}" {
            let t = lines[j].trim();
            if let Some(r) = t.strip_prefix("states.truncate(states.len() - ") {
                pops = r.strip_suffix(");").ok_or("bad truncate line")?.parse().map_err(|_| "bad truncate count".to_string())?;
            }
            if lines[j] == "    )" {
                let prev = lines[j - 1].trim().trim_end_matches(',');
                let Some(p) = prev.rfind("::") else { return err("bad reduce tuple") };
                kind = Some(prev[p + 2..].to_string());
            }
            j += 1;
        }
        let Some(kind) = kind else { return err(format!("reduce fn {name}: no result tuple")) };
        fn_info.insert(name.clone(), (pops, kind));
    }
    let mut rules = vec![];
    for k in 0..rule_kinds.len() {
        let Some(f) = arm_fn.get(&k) else { return err(format!("no pop_and_reduce arm for R{k}")) };
        let Some(info) = fn_info.get(f) else { return err(format!("no reduce fn `{f}`")) };
        rules.push(info.clone());
    }
    if action.len() != states.len() || goto.len() != states.len() {
        return err("table row count differs from the number of state variants");
    }
    Ok(Emitted {
        start,
        action,
        goto,
        term_cols,
        eof_col,
        nt_cols: nts.clone(),
        rules,
        n_state_variants: states.len(),
    })
}

/// The `// @sha256 <hex>` header line's payload, found by plain text search (independent of kiki::get_grammar_hash).
pub fn strip_hash_line(text: &str) -> String {
    text.lines().filter(|l| !l.starts_with("// @sha256 ")).collect::<Vec<_>>().join("\n")
}

// ---------------------------------------------------------------------------
// Type region (public type definitions between the lint header and `parse`)

#[derive(Clone, Debug, PartialEq, Eq)]
pub enum EFs {
    Unit,
    /// (is `pub`, field name, type text)
    Named(Vec<(bool, String, String)>),
    /// (is `pub`, type text)
    Tuple(Vec<(bool, String)>),
}

#[derive(Clone, Debug, PartialEq, Eq)]
pub struct EType {
    pub attrs: Vec<String>,
    pub is_pub: bool,
    pub is_enum: bool,
    pub name: String,
    /// struct: one entry with an empty variant name
    pub variants: Vec<(String, EFs)>,
    /// line index (in `text.split('\n')`) of the definition line
    pub def_line: usize,
}

fn field_lines<'a>(lines: &[&'a str], i: &mut usize, indent: &str, closer: &str) -> Result<Vec<&'a str>, String> {
    let mut v = vec![];
    loop {
        let Some(l) = lines.get(*i) else { return err("unterminated fieldset") };
        *i += 1;
        if *l == format!("{indent}{closer}") {
            return Ok(v);
        }
        let inner = format!("{indent}    ");
        let Some(body) = l.strip_prefix(inner.as_str()) else { return err(format!("unexpected line in fieldset: `{l}`")) };
        let Some(body) = body.strip_suffix(',') else { return err(format!("field without trailing comma: `{l}`")) };
        v.push(body);
    }
}

fn tuple_field(f: &str) -> (bool, String) {
    match f.strip_prefix("pub ") {
        Some(r) => (true, r.to_string()),
        None => (false, f.to_string()),
    }
}

fn named_fields(raw: Vec<&str>) -> Result<EFs, String> {
    let mut out = vec![];
    for f in raw {
        let (is_pub, rest) = match f.strip_prefix("pub ") {
            Some(r) => (true, r),
            None => (false, f),
        };
        let Some(colon) = rest.find(": ") else { return err(format!("named field without `: `: `{f}`")) };
        out.push((is_pub, rest[..colon].to_string(), rest[colon + 2..].to_string()));
    }
    Ok(EFs::Named(out))
}

pub fn read_types(text: &str) -> Result<Vec<EType>, String> {
    let lines: Vec<&str> = text.split('\n').collect();
    let Some(begin) = lines.iter().position(|l| *l == "#![allow(dead_code)]") else { return err("no `#![allow(dead_code)]` line") };
    let Some(end) = lines.iter().position(|l| l.starts_with("/// If the parser encounters an unexpected token")) else {
        return err("no doc comment of `parse`");
    };
    let mut out = vec![];
    let mut i = begin + 1;
    let mut attrs: Vec<String> = vec![];
    while i < end {
        let l = lines[i];
        if l.is_empty() {
            if !attrs.is_empty() {
                return err("blank line between an attribute and its type definition");
            }
            i += 1;
            continue;
        }
        if l.starts_with("#[") {
            attrs.push(l.to_string());
            i += 1;
            continue;
        }
        let (is_pub, rest) = match l.strip_prefix("pub ") {
            Some(r) => (true, r),
            None => (false, l),
        };
        let def_line = i;
        if let Some(r) = rest.strip_prefix("struct ") {
            i += 1;
            let (name, fs) = if let Some(n) = r.strip_suffix(';') {
                (n.to_string(), EFs::Unit)
            } else if let Some(n) = r.strip_suffix(" {") {
                (n.to_string(), named_fields(field_lines(&lines, &mut i, "", "}")?)?)
            } else if let Some(n) = r.strip_suffix('(') {
                (n.to_string(), EFs::Tuple(field_lines(&lines, &mut i, "", ");")?.into_iter().map(tuple_field).collect()))
            } else {
                return err(format!("unrecognised struct definition line `{l}`"));
            };
            out.push(EType { attrs: std::mem::take(&mut attrs), is_pub, is_enum: false, name, variants: vec![(String::new(), fs)], def_line });
        } else if let Some(r) = rest.strip_prefix("enum ") {
            if let Some(name) = r.strip_suffix(" {}") {
                // a variant-less enum written on one line: the same definition
                i += 1;
                out.push(EType { attrs: std::mem::take(&mut attrs), is_pub, is_enum: true, name: name.to_string(), variants: vec![], def_line });
                continue;
            }
            let Some(name) = r.strip_suffix(" {") else { return err(format!("unrecognised enum definition line `{l}`")) };
            i += 1;
            let mut variants = vec![];
            loop {
                let Some(vl) = lines.get(i) else { return err("unterminated enum") };
                i += 1;
                if *vl == "}" {
                    break;
                }
                if vl.is_empty() {
                    continue;
                }
                let Some(body) = vl.strip_prefix("    ") else { return err(format!("unexpected line in enum: `{vl}`")) };
                if let Some(n) = body.strip_suffix(" {") {
                    variants.push((n.to_string(), named_fields(field_lines(&lines, &mut i, "    ", "},")?)?));
                } else if let Some(n) = body.strip_suffix('(') {
                    variants.push((n.to_string(), EFs::Tuple(field_lines(&lines, &mut i, "    ", "),")?.into_iter().map(tuple_field).collect())));
                } else if let Some(n) = body.strip_suffix(',') {
                    // `Name,` (unit) or the terminal enum's `Name(TYPE),`
                    if let Some(p) = n.find('(') {
                        let Some(inner) = n[p + 1..].strip_suffix(')') else { return err(format!("bad variant line `{vl}`")) };
                        variants.push((n[..p].to_string(), EFs::Tuple(vec![(false, inner.to_string())])));
                    } else {
                        variants.push((n.to_string(), EFs::Unit));
                    }
                } else {
                    return err(format!("unrecognised variant line `{vl}`"));
                }
            }
            out.push(EType { attrs: std::mem::take(&mut attrs), is_pub, is_enum: true, name: name.to_string(), variants, def_line });
        } else {
            return err(format!("unexpected line in the type region: `{l}`"));
        }
    }
    if !attrs.is_empty() {
        return err("dangling attributes at the end of the type region");
    }
    Ok(out)
}

/// Tokens of a Rust type expression as written by Kiki's type syntax: identifiers, `::`, `<`, `>`, `,`, `(`, `)`.
pub fn type_tokens(s: &str) -> Result<Vec<String>, String> {
    let mut out = vec![];
    let cs: Vec<char> = s.chars().collect();
    let mut i = 0;
    while i < cs.len() {
        let c = cs[i];
        if c == ' ' {
            i += 1;
        } else if c.is_ascii_alphabetic() || c == '_' {
            let st = i;
            while i < cs.len() && (cs[i].is_ascii_alphanumeric() || cs[i] == '_') {
                i += 1;
            }
            out.push(cs[st..i].iter().collect());
        } else if c == ':' && cs.get(i + 1) == Some(&':') {
            out.push("::".into());
            i += 2;
        } else if "<>,()".contains(c) {
            out.push(c.to_string());
            i += 1;
        } else {
            return err(format!("unexpected character `{c}` in type `{s}`"));
        }
    }
    Ok(out)
}

/// (terminal name, type text) pairs of the Node helper enum and of the `try_into_*` helper functions.
pub struct HelperTypes {
    pub node_variants: Vec<(String, String)>,
    pub try_into: Vec<(String, String)>,
}

pub fn read_helper_types(text: &str) -> Result<HelperTypes, String> {
    let lines: Vec<&str> = text.split('\n').collect();
    let Some(parse_at) = lines.iter().position(|l| l.starts_with("pub fn parse<")) else { return err("no parse fn") };
    // non-derived helper enums after parse, in template order: quasi-terminal, node
    let mut plain = vec![];
    let mut i = parse_at;
    while i < lines.len() {
        if lines[i].starts_with("enum ") && lines[i].ends_with(" {") && lines[i - 1] != "#[derive(Clone, Copy, Debug)]" {
            let mut body = vec![];
            let mut j = i + 1;
            while j < lines.len() && lines[j] != "}" {
                body.push(lines[j]);
                j += 1;
            }
            plain.push(body);
            i = j;
        }
        i += 1;
    }
    if plain.len() != 2 {
        return err(format!("expected 2 non-derived helper enums, found {}", plain.len()));
    }
    let mut node_variants = vec![];
    for l in &plain[1] {
        let t = l.trim();
        if t.is_empty() {
            continue;
        }
        let Some(t) = t.strip_suffix(',') else { return err("node variant without comma") };
        let Some(p) = t.find('(') else { return err("node variant without payload") };
        let Some(inner) = t[p + 1..].strip_suffix(')') else { return err("node variant payload not closed") };
        node_variants.push((t[..p].to_string(), inner.to_string()));
    }
    let mut try_into = vec![];
    for l in &lines[parse_at..] {
        if let Some(r) = l.strip_prefix("    fn try_into_") {
            if let Some(p) = r.find("(self) -> Result<") {
                let name = format!("try_into_{}", &r[..p]);
                let rest = &r[p + "(self) -> Result<".len()..];
                if let Some(ty) = rest.strip_suffix(", Self> {") {
                    try_into.push((name, ty.to_string()));
                } else if name != "try_into_terminal" {
                    return err(format!("bad try_into signature `{l}`"));
                }
            }
        }
    }
    Ok(HelperTypes { node_variants, try_into })
}
