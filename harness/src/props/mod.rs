//! One module per family of properties.

pub mod common;
pub mod lalr;

use crate::engine::{Ctx, Failure};

pub fn run(ctx: &Ctx) -> i32 {
    match ctx.prop.as_str() {
        "C04" => lalr::c04_run(ctx),
        "C11" => lalr::c11_run(ctx),
        "C17" => lalr::c17_run(ctx),
        other => {
            eprintln!("unknown property {other}");
            2
        }
    }
}

fn replay_fn(prop: &str) -> Option<fn(&serde_json::Value) -> Result<(), Failure>> {
    Some(match prop {
        "C04" => lalr::c04_replay,
        "C11" => lalr::c11_replay,
        "C17" => lalr::c17_replay,
        _ => return None,
    })
}

/// Re-runs one saved case without any generator. Exit 0 = passes now, 1 = still violates.
pub fn replay(ctx: &Ctx, path: &str) -> i32 {
    let Some(f) = replay_fn(&ctx.prop) else {
        eprintln!("unknown property {}", ctx.prop);
        return 2;
    };
    let txt = match std::fs::read_to_string(path) {
        Ok(t) => t,
        Err(e) => {
            eprintln!("cannot read {path}: {e}");
            return 2;
        }
    };
    let v: serde_json::Value = match serde_json::from_str(&txt) {
        Ok(v) => v,
        Err(e) => {
            eprintln!("{path}: {e}");
            return 2;
        }
    };
    let case = if v.get("case").is_some() { v["case"].clone() } else { v };
    match f(&case) {
        Ok(()) => {
            println!("REPLAY property={} result=pass", ctx.prop);
            0
        }
        Err(fl) if fl.internal => {
            println!("REPLAY property={} result=inconclusive {}", ctx.prop, fl.signature());
            eprintln!("{}", fl.detail);
            2
        }
        Err(fl) => {
            eprintln!("{}", fl.detail);
            println!("VIOLATION property={} replay={}", ctx.prop, path);
            1
        }
    }
}

pub fn worker(_args: &[String]) -> i32 {
    2
}
