//! R4 — reference grammar analysis on an abstract CFG.
//!
//! Everything here is written from the textbook definitions and shares no code
//! with kiki: nullable/FIRST/FOLLOW, canonical LR(1) collection (items with
//! lookahead *sets*, which is the usual compressed representation of sets of
//! single-lookahead items), LALR(1) = LR(1) states merged by equal core,
//! SLR(1) (for classification), ACTION tables with *sets* of actions per cell
//! (so conflicts are visible), an LR driver, an Earley recogniser, and a random
//! derivation generator.

use std::collections::{BTreeMap, BTreeSet, HashMap};

#[derive(Clone, Copy, PartialEq, Eq, PartialOrd, Ord, Hash, Debug)]
pub enum S {
    T(u16),
    N(u16),
}

#[derive(Clone, Debug, PartialEq, Eq, Hash)]
pub struct Rule {
    pub lhs: u16,
    pub rhs: Vec<S>,
}

#[derive(Clone, Debug, PartialEq, Eq, Hash)]
pub struct Cfg {
    pub n_t: usize,
    pub n_n: usize,
    pub rules: Vec<Rule>,
    pub start: u16,
}

pub type Mask = u128; // bit i = terminal i, bit n_t = end of input

#[derive(Clone, Debug)]
pub struct Sets {
    pub nullable: Vec<bool>,
    pub first: Vec<Mask>,
    pub follow: Vec<Mask>,
    pub productive: Vec<bool>,
    pub reachable: Vec<bool>,
}

impl Cfg {
    pub fn eof_bit(&self) -> Mask {
        (1 as Mask) << self.n_t
    }

    pub fn sets(&self) -> Sets {
        assert!(self.n_t <= 126);
        let mut nullable = vec![false; self.n_n];
        let mut first = vec![0 as Mask; self.n_n];
        loop {
            let mut ch = false;
            for r in &self.rules {
                let l = r.lhs as usize;
                let mut all_null = true;
                let mut f: Mask = 0;
                for s in &r.rhs {
                    match *s {
                        S::T(t) => {
                            f |= 1 << t;
                            all_null = false;
                            break;
                        }
                        S::N(n) => {
                            f |= first[n as usize];
                            if !nullable[n as usize] {
                                all_null = false;
                                break;
                            }
                        }
                    }
                }
                if all_null && !nullable[l] {
                    nullable[l] = true;
                    ch = true;
                }
                if first[l] | f != first[l] {
                    first[l] |= f;
                    ch = true;
                }
            }
            if !ch {
                break;
            }
        }
        // FOLLOW
        let mut follow = vec![0 as Mask; self.n_n];
        follow[self.start as usize] |= self.eof_bit();
        loop {
            let mut ch = false;
            for r in &self.rules {
                for (i, s) in r.rhs.iter().enumerate() {
                    if let S::N(b) = *s {
                        let (f, nl) = first_of_seq(&r.rhs[i + 1..], &nullable, &first);
                        let mut add = f;
                        if nl {
                            add |= follow[r.lhs as usize];
                        }
                        if follow[b as usize] | add != follow[b as usize] {
                            follow[b as usize] |= add;
                            ch = true;
                        }
                    }
                }
            }
            if !ch {
                break;
            }
        }
        // productive
        let mut productive = vec![false; self.n_n];
        loop {
            let mut ch = false;
            for r in &self.rules {
                if !productive[r.lhs as usize]
                    && r.rhs.iter().all(|s| match *s {
                        S::T(_) => true,
                        S::N(n) => productive[n as usize],
                    })
                {
                    productive[r.lhs as usize] = true;
                    ch = true;
                }
            }
            if !ch {
                break;
            }
        }
        // reachable
        let mut reachable = vec![false; self.n_n];
        reachable[self.start as usize] = true;
        loop {
            let mut ch = false;
            for r in &self.rules {
                if reachable[r.lhs as usize] {
                    for s in &r.rhs {
                        if let S::N(n) = *s {
                            if !reachable[n as usize] {
                                reachable[n as usize] = true;
                                ch = true;
                            }
                        }
                    }
                }
            }
            if !ch {
                break;
            }
        }
        Sets { nullable, first, follow, productive, reachable }
    }

    pub fn rules_of(&self, n: u16) -> impl Iterator<Item = usize> + '_ {
        self.rules.iter().enumerate().filter(move |(_, r)| r.lhs == n).map(|(i, _)| i)
    }

    /// RHS of rule `r`; `r == rules.len()` is the augmented rule S' -> start.
    pub fn rhs(&self, r: usize) -> Vec<S> {
        if r == self.rules.len() {
            vec![S::N(self.start)]
        } else {
            self.rules[r].rhs.clone()
        }
    }
    pub fn rhs_len(&self, r: usize) -> usize {
        if r == self.rules.len() {
            1
        } else {
            self.rules[r].rhs.len()
        }
    }
    pub fn sym_at(&self, r: usize, dot: usize) -> Option<S> {
        if r == self.rules.len() {
            if dot == 0 {
                Some(S::N(self.start))
            } else {
                None
            }
        } else {
            self.rules[r].rhs.get(dot).copied()
        }
    }
}

pub fn first_of_seq(seq: &[S], nullable: &[bool], first: &[Mask]) -> (Mask, bool) {
    let mut f: Mask = 0;
    for s in seq {
        match *s {
            S::T(t) => {
                f |= 1 << t;
                return (f, false);
            }
            S::N(n) => {
                f |= first[n as usize];
                if !nullable[n as usize] {
                    return (f, false);
                }
            }
        }
    }
    (f, true)
}

// ---------------------------------------------------------------------------
// LR automata

/// Core of an item: (rule, dot). `rule == rules.len()` is the augmented rule.
#[derive(Clone, Copy, PartialEq, Eq, PartialOrd, Ord, Hash, Debug)]
pub struct Core {
    pub rule: u32,
    pub dot: u32,
}

#[derive(Clone, Debug, PartialEq, Eq)]
pub struct AState {
    /// sorted by core; lookahead set per core (never empty)
    pub items: Vec<(Core, Mask)>,
    /// transitions sorted by symbol
    pub trans: BTreeMap<S, usize>,
}

#[derive(Clone, Debug)]
pub struct Automaton {
    pub states: Vec<AState>,
    pub start: usize,
}

#[derive(Clone, Copy, PartialEq, Eq, PartialOrd, Ord, Hash, Debug)]
pub enum Act {
    Shift(usize),
    Reduce(usize),
    Accept,
}

#[derive(Clone, Debug)]
pub struct Tables {
    /// action[state][q] = set of demanded actions, q in 0..=n_t (n_t = eof)
    pub action: Vec<Vec<Vec<Act>>>,
    /// goto[state][nonterminal]
    pub goto: Vec<Vec<Option<usize>>>,
}

impl Tables {
    pub fn conflict_free(&self) -> bool {
        self.action.iter().all(|row| row.iter().all(|c| c.len() <= 1))
    }
    pub fn conflicts(&self) -> Vec<(usize, usize, Vec<Act>)> {
        let mut v = vec![];
        for (s, row) in self.action.iter().enumerate() {
            for (q, c) in row.iter().enumerate() {
                if c.len() > 1 {
                    v.push((s, q, c.clone()));
                }
            }
        }
        v
    }
}

#[derive(Debug, Clone, PartialEq, Eq)]
pub struct TooBig;

pub const LR1_STATE_CAP: usize = 3000;

fn closure(cfg: &Cfg, sets: &Sets, kernel: &[(Core, Mask)]) -> Vec<(Core, Mask)> {
    let mut map: BTreeMap<Core, Mask> = BTreeMap::new();
    let mut work: Vec<Core> = vec![];
    for (c, m) in kernel {
        let e = map.entry(*c).or_insert(0);
        if *e | *m != *e {
            *e |= *m;
        }
        work.push(*c);
    }
    while let Some(c) = work.pop() {
        let la = map[&c];
        if let Some(S::N(b)) = cfg.sym_at(c.rule as usize, c.dot as usize) {
            let rhs = cfg.rhs(c.rule as usize);
            let (f, nl) = first_of_seq(&rhs[c.dot as usize + 1..], &sets.nullable, &sets.first);
            let mut new_la = f;
            if nl {
                new_la |= la;
            }
            if new_la == 0 {
                continue;
            }
            for r in cfg.rules_of(b) {
                let nc = Core { rule: r as u32, dot: 0 };
                let e = map.entry(nc).or_insert(0);
                if *e | new_la != *e {
                    *e |= new_la;
                    work.push(nc);
                }
            }
        }
    }
    map.into_iter().filter(|(_, m)| *m != 0).collect()
}

/// Canonical LR(1) collection.
pub fn lr1(cfg: &Cfg, sets: &Sets) -> Result<Automaton, TooBig> {
    let aug = cfg.rules.len() as u32;
    let start_items = closure(cfg, sets, &[(Core { rule: aug, dot: 0 }, cfg.eof_bit())]);
    let mut index: HashMap<Vec<(Core, Mask)>, usize> = HashMap::new();
    let mut states: Vec<AState> = vec![];
    index.insert(start_items.clone(), 0);
    states.push(AState { items: start_items, trans: BTreeMap::new() });
    let mut i = 0;
    while i < states.len() {
        // group kernel items of successors by symbol
        let mut by_sym: BTreeMap<S, Vec<(Core, Mask)>> = BTreeMap::new();
        for (c, m) in &states[i].items {
            if let Some(s) = cfg.sym_at(c.rule as usize, c.dot as usize) {
                by_sym.entry(s).or_default().push((Core { rule: c.rule, dot: c.dot + 1 }, *m));
            }
        }
        for (s, kernel) in by_sym {
            let items = closure(cfg, sets, &kernel);
            let id = match index.get(&items) {
                Some(id) => *id,
                None => {
                    let id = states.len();
                    if id >= LR1_STATE_CAP {
                        return Err(TooBig);
                    }
                    index.insert(items.clone(), id);
                    states.push(AState { items, trans: BTreeMap::new() });
                    id
                }
            };
            states[i].trans.insert(s, id);
        }
        i += 1;
    }
    Ok(Automaton { states, start: 0 })
}

/// LALR(1) automaton by the definition: merge LR(1) states with equal cores.
/// Also returns, per merged state, how many LR(1) states went into it.
pub fn lalr_from_lr1(lr1: &Automaton) -> (Automaton, Vec<usize>) {
    let mut core_index: HashMap<Vec<Core>, usize> = HashMap::new();
    let mut map: Vec<usize> = Vec::with_capacity(lr1.states.len());
    let mut states: Vec<AState> = vec![];
    let mut counts: Vec<usize> = vec![];
    for st in &lr1.states {
        let core: Vec<Core> = st.items.iter().map(|(c, _)| *c).collect();
        match core_index.get(&core) {
            Some(&id) => {
                for (k, (_, m)) in st.items.iter().enumerate() {
                    states[id].items[k].1 |= *m;
                }
                counts[id] += 1;
                map.push(id);
            }
            None => {
                let id = states.len();
                core_index.insert(core, id);
                states.push(AState { items: st.items.clone(), trans: BTreeMap::new() });
                counts.push(1);
                map.push(id);
            }
        }
    }
    for (i, st) in lr1.states.iter().enumerate() {
        for (s, to) in &st.trans {
            let from = map[i];
            let to = map[*to];
            if let Some(prev) = states[from].trans.insert(*s, to) {
                assert_eq!(prev, to, "merged states must agree on transitions");
            }
        }
    }
    (Automaton { states, start: map[lr1.start] }, counts)
}

/// Tables of an automaton, lookaheads taken from the items' lookahead sets.
pub fn tables(cfg: &Cfg, a: &Automaton) -> Tables {
    tables_with(cfg, a, |_, _, m| m)
}

/// SLR(1) tables on the same (LR(0)) states: reduce on FOLLOW(lhs).
pub fn slr_tables(cfg: &Cfg, sets: &Sets, a: &Automaton) -> Tables {
    let eof = cfg.eof_bit();
    tables_with(cfg, a, |rule, _, _| {
        if rule == cfg.rules.len() {
            eof
        } else {
            sets.follow[cfg.rules[rule].lhs as usize]
        }
    })
}

fn tables_with(cfg: &Cfg, a: &Automaton, la_of: impl Fn(usize, usize, Mask) -> Mask) -> Tables {
    let nq = cfg.n_t + 1;
    let aug = cfg.rules.len();
    let mut action = vec![vec![Vec::<Act>::new(); nq]; a.states.len()];
    let mut goto = vec![vec![None; cfg.n_n]; a.states.len()];
    for (si, st) in a.states.iter().enumerate() {
        for (c, m) in &st.items {
            let r = c.rule as usize;
            let d = c.dot as usize;
            match cfg.sym_at(r, d) {
                Some(S::T(t)) => {
                    let to = st.trans[&S::T(t)];
                    push_unique(&mut action[si][t as usize], Act::Shift(to));
                }
                Some(S::N(_)) => {}
                None => {
                    let la = la_of(r, d, *m);
                    for q in 0..nq {
                        if la >> q & 1 == 1 {
                            if r == aug {
                                push_unique(&mut action[si][q], Act::Accept);
                            } else {
                                push_unique(&mut action[si][q], Act::Reduce(r));
                            }
                        }
                    }
                }
            }
        }
        for (s, to) in &st.trans {
            if let S::N(n) = s {
                goto[si][*n as usize] = Some(*to);
            }
        }
        for cell in action[si].iter_mut() {
            cell.sort();
        }
    }
    Tables { action, goto }
}

fn push_unique(v: &mut Vec<Act>, a: Act) {
    if !v.contains(&a) {
        v.push(a);
    }
}

#[derive(Clone, Debug, PartialEq, Eq)]
pub enum Tree {
    Leaf { term: u16, pos: usize },
    Node { rule: usize, children: Vec<Tree> },
}

impl Tree {
    pub fn depth(&self) -> usize {
        match self {
            Tree::Leaf { .. } => 0,
            Tree::Node { children, .. } => 1 + children.iter().map(|c| c.depth()).max().unwrap_or(0),
        }
    }
    pub fn leaves(&self, out: &mut Vec<(u16, usize)>) {
        match self {
            Tree::Leaf { term, pos } => out.push((*term, *pos)),
            Tree::Node { children, .. } => children.iter().for_each(|c| c.leaves(out)),
        }
    }
    pub fn renumber(&mut self, next: &mut usize) {
        match self {
            Tree::Leaf { pos, .. } => {
                *pos = *next;
                *next += 1;
            }
            Tree::Node { children, .. } => children.iter_mut().for_each(|c| c.renumber(next)),
        }
    }
}

#[derive(Clone, Debug, PartialEq, Eq)]
pub enum Parse {
    Accept(Tree),
    /// index of the token at which the driver stops; `None` = at end of input
    Error(Option<usize>),
    /// step bound hit (only possible with a broken table)
    Diverged,
}

/// Deterministic LR driver over conflict-free tables.
pub fn drive(cfg: &Cfg, start: usize, t: &Tables, input: &[u16]) -> Parse {
    drive_bounded(cfg, start, t, input, 400_000)
}

/// `per_token` bounds the number of reductions between two shifts. For a grammar without useless symbols
/// conflict-free LR tables cannot loop; with unproductive nonterminals the LR construction itself can contain
/// an epsilon-reduction cycle (see DESIGN.md §6, finding `lr-epsilon-loop`), which this bound detects.
pub fn drive_bounded(cfg: &Cfg, start: usize, t: &Tables, input: &[u16], per_token: usize) -> Parse {
    let mut states = vec![start];
    let mut nodes: Vec<Tree> = vec![];
    let mut i = 0usize;
    let mut steps = 0usize;
    loop {
        steps += 1;
        if steps > per_token {
            return Parse::Diverged;
        }
        let q = if i < input.len() { input[i] as usize } else { cfg.n_t };
        let cell = &t.action[*states.last().unwrap()][q];
        if cell.is_empty() {
            return Parse::Error(if i < input.len() { Some(i) } else { None });
        }
        match cell[0] {
            Act::Shift(to) => {
                nodes.push(Tree::Leaf { term: input[i], pos: i });
                states.push(to);
                i += 1;
                steps = 0;
            }
            Act::Reduce(r) => {
                let n = cfg.rules[r].rhs.len();
                let children = nodes.split_off(nodes.len() - n);
                states.truncate(states.len() - n);
                nodes.push(Tree::Node { rule: r, children });
                match t.goto[*states.last().unwrap()][cfg.rules[r].lhs as usize] {
                    Some(to) => states.push(to),
                    None => return Parse::Error(if i < input.len() { Some(i) } else { None }),
                }
            }
            Act::Accept => {
                return Parse::Accept(nodes.pop().unwrap());
            }
        }
    }
}

// ---------------------------------------------------------------------------
// Earley recogniser

#[derive(Clone, Debug, PartialEq, Eq)]
pub struct EarleyResult {
    pub accepted: bool,
    /// smallest i such that the item set after scanning input[i] is empty
    pub dead_at: Option<usize>,
}

pub fn earley(cfg: &Cfg, sets: &Sets, input: &[u16]) -> EarleyResult {
    #[derive(Clone, Copy, PartialEq, Eq, Hash, PartialOrd, Ord)]
    struct It {
        rule: u32,
        dot: u32,
        origin: u32,
    }
    let aug = cfg.rules.len() as u32;
    let n = input.len();
    let mut chart: Vec<Vec<It>> = vec![vec![]; n + 1];
    let mut seen: Vec<BTreeSet<It>> = vec![BTreeSet::new(); n + 1];
    let add = |chart: &mut Vec<Vec<It>>, seen: &mut Vec<BTreeSet<It>>, k: usize, it: It| {
        if seen[k].insert(it) {
            chart[k].push(it);
        }
    };
    add(&mut chart, &mut seen, 0, It { rule: aug, dot: 0, origin: 0 });
    for k in 0..=n {
        let mut j = 0;
        while j < chart[k].len() {
            let it = chart[k][j];
            j += 1;
            match cfg.sym_at(it.rule as usize, it.dot as usize) {
                Some(S::N(b)) => {
                    for r in cfg.rules_of(b) {
                        add(&mut chart, &mut seen, k, It { rule: r as u32, dot: 0, origin: k as u32 });
                    }
                    if sets.nullable[b as usize] {
                        add(&mut chart, &mut seen, k, It { rule: it.rule, dot: it.dot + 1, origin: it.origin });
                    }
                }
                Some(S::T(t)) => {
                    if k < n && input[k] == t {
                        add(&mut chart, &mut seen, k + 1, It { rule: it.rule, dot: it.dot + 1, origin: it.origin });
                    }
                }
                None => {
                    // completion
                    if it.rule == aug {
                        continue;
                    }
                    let lhs = cfg.rules[it.rule as usize].lhs;
                    let o = it.origin as usize;
                    let mut m = 0;
                    while m < chart[o].len() {
                        let p = chart[o][m];
                        m += 1;
                        if cfg.sym_at(p.rule as usize, p.dot as usize) == Some(S::N(lhs)) {
                            add(&mut chart, &mut seen, k, It { rule: p.rule, dot: p.dot + 1, origin: p.origin });
                        }
                    }
                }
            }
        }
        if k < n && chart[k + 1].is_empty() {
            // nothing scanned input[k]; later scans cannot add to k+1, but make sure
            // the processing of set k was complete (it was: the loop above ran to its end)
            return EarleyResult { accepted: false, dead_at: Some(k) };
        }
    }
    let accepted = seen[n].contains(&It { rule: aug, dot: 1, origin: 0 });
    EarleyResult { accepted, dead_at: None }
}

// ---------------------------------------------------------------------------
// Random derivations

/// Minimal derivation height per nonterminal (usize::MAX for unproductive) and,
/// per rule, the height of the shallowest tree using it at the root.
pub fn min_heights(cfg: &Cfg) -> (Vec<usize>, Vec<usize>) {
    let inf = usize::MAX;
    let mut h = vec![inf; cfg.n_n];
    let mut rh = vec![inf; cfg.rules.len()];
    loop {
        let mut ch = false;
        for (ri, r) in cfg.rules.iter().enumerate() {
            let mut m = 0usize;
            let mut ok = true;
            for s in &r.rhs {
                if let S::N(n) = *s {
                    if h[n as usize] == inf {
                        ok = false;
                        break;
                    }
                    m = m.max(h[n as usize]);
                }
            }
            if ok {
                let v = m + 1;
                if v < rh[ri] {
                    rh[ri] = v;
                    ch = true;
                }
                if v < h[r.lhs as usize] {
                    h[r.lhs as usize] = v;
                    ch = true;
                }
            }
        }
        if !ch {
            break;
        }
    }
    (h, rh)
}

/// Builds a random derivation tree from `start`; `choices` supplies the random
/// decisions (consumed left to right, wrapping), `budget` bounds the number of
/// leaves approximately. Returns None if the start symbol is unproductive.
pub fn random_derivation(cfg: &Cfg, heights: &(Vec<usize>, Vec<usize>), choices: &[u16], budget: usize) -> Option<Tree> {
    random_derivation_deep(cfg, heights, choices, budget, 24)
}

/// As `random_derivation`, with an explicit bound on the nesting depth (long sentences of left- or right-recursive
/// grammars need deep trees).
pub fn random_derivation_deep(cfg: &Cfg, heights: &(Vec<usize>, Vec<usize>), choices: &[u16], budget: usize, max_depth: usize) -> Option<Tree> {
    if heights.0[cfg.start as usize] == usize::MAX {
        return None;
    }
    let mut ci = 0usize;
    let mut leaves = 0usize;
    fn go(
        cfg: &Cfg,
        heights: &(Vec<usize>, Vec<usize>),
        choices: &[u16],
        ci: &mut usize,
        leaves: &mut usize,
        budget: usize,
        max_depth: usize,
        n: u16,
        depth: usize,
    ) -> Tree {
        let cands: Vec<usize> = cfg.rules_of(n).filter(|r| heights.1[*r] != usize::MAX).collect();
        let tight = *leaves >= budget || depth > max_depth;
        let rule = if tight {
            *cands.iter().min_by_key(|r| (heights.1[**r], **r)).unwrap()
        } else {
            let c = if choices.is_empty() { 0 } else { choices[*ci % choices.len()] as usize };
            *ci += 1;
            cands[c * cands.len() >> 16]
        };
        let mut children = vec![];
        for s in &cfg.rules[rule].rhs {
            match *s {
                S::T(t) => {
                    *leaves += 1;
                    children.push(Tree::Leaf { term: t, pos: 0 });
                }
                S::N(m) => children.push(go(cfg, heights, choices, ci, leaves, budget, max_depth, m, depth + 1)),
            }
        }
        Tree::Node { rule, children }
    }
    let mut t = go(cfg, heights, choices, &mut ci, &mut leaves, budget, max_depth, cfg.start, 0);
    let mut next = 0;
    t.renumber(&mut next);
    Some(t)
}

// ---------------------------------------------------------------------------
// Whole-grammar analysis and classification

#[derive(Clone, Debug)]
pub struct Analysis {
    pub sets: Sets,
    pub lr1: Automaton,
    pub lalr: Automaton,
    pub merged_counts: Vec<usize>,
    pub lr1_tables: Tables,
    pub lalr_tables: Tables,
    pub slr_conflict_free: bool,
}

#[derive(Clone, Copy, Debug, PartialEq, Eq, PartialOrd, Ord, Hash)]
pub enum Class {
    Slr,
    LalrNotSlr,
    Lr1NotLalr,
    NotLr1,
}

impl Analysis {
    pub fn new(cfg: &Cfg) -> Result<Analysis, TooBig> {
        let sets = cfg.sets();
        let l1 = lr1(cfg, &sets)?;
        let (la, merged_counts) = lalr_from_lr1(&l1);
        let lr1_tables = tables(cfg, &l1);
        let lalr_tables = tables(cfg, &la);
        let slr = slr_tables(cfg, &sets, &la);
        Ok(Analysis {
            slr_conflict_free: slr.conflict_free(),
            sets,
            lr1: l1,
            lalr: la,
            merged_counts,
            lr1_tables,
            lalr_tables,
        })
    }
    pub fn class(&self) -> Class {
        if self.lalr_tables.conflict_free() {
            if self.slr_conflict_free {
                Class::Slr
            } else {
                Class::LalrNotSlr
            }
        } else if self.lr1_tables.conflict_free() {
            Class::Lr1NotLalr
        } else {
            Class::NotLr1
        }
    }
    pub fn lalr_ok(&self) -> bool {
        self.lalr_tables.conflict_free()
    }
}

/// Structural facts used for classification in evidence.
#[derive(Clone, Debug, Default)]
pub struct Shape {
    pub recursive: bool,
    pub left_recursive: bool,
    pub right_recursive: bool,
    pub nullable_nts: usize,
    pub eps_mid_rhs: bool,
    pub unreachable: usize,
    pub unproductive: usize,
    pub variantless: usize,
}

pub fn shape(cfg: &Cfg, sets: &Sets) -> Shape {
    let mut sh = Shape::default();
    sh.nullable_nts = sets.nullable.iter().filter(|b| **b).count();
    sh.unreachable = sets.reachable.iter().filter(|b| !**b).count();
    sh.unproductive = sets.productive.iter().filter(|b| !**b).count();
    for n in 0..cfg.n_n {
        if cfg.rules_of(n as u16).next().is_none() {
            sh.variantless += 1;
        }
    }
    // reachability relation between nonterminals
    let n = cfg.n_n;
    let mut reach = vec![vec![false; n]; n];
    for r in &cfg.rules {
        for s in &r.rhs {
            if let S::N(m) = *s {
                reach[r.lhs as usize][m as usize] = true;
            }
        }
    }
    for k in 0..n {
        for i in 0..n {
            if reach[i][k] {
                for j in 0..n {
                    if reach[k][j] {
                        reach[i][j] = true;
                    }
                }
            }
        }
    }
    sh.recursive = (0..n).any(|i| reach[i][i]);
    for r in &cfg.rules {
        let l = r.lhs as usize;
        if let Some(S::N(f)) = r.rhs.first() {
            if *f as usize == l || reach[*f as usize][l] {
                sh.left_recursive = true;
            }
        }
        if let Some(S::N(f)) = r.rhs.last() {
            if *f as usize == l || reach[*f as usize][l] {
                sh.right_recursive = true;
            }
        }
        if r.rhs.len() >= 3 {
            for s in &r.rhs[1..r.rhs.len() - 1] {
                if let S::N(m) = *s {
                    if sets.nullable[m as usize] {
                        sh.eps_mid_rhs = true;
                    }
                }
            }
        }
    }
    sh
}

/// Does some state's LALR lookahead set for a complete item differ from FOLLOW
/// (i.e. would SLR put more reduce entries there)?
pub fn lalr_strictly_tighter_than_follow(cfg: &Cfg, a: &Analysis) -> bool {
    for st in &a.lalr.states {
        for (c, m) in &st.items {
            let r = c.rule as usize;
            if r < cfg.rules.len() && c.dot as usize == cfg.rules[r].rhs.len() {
                let f = a.sets.follow[cfg.rules[r].lhs as usize];
                if *m != f && (*m & f) == *m {
                    return true;
                }
            }
        }
    }
    false
}

/// Canonical textual form of a CFG (for hashing distinct cases).
pub fn canon(cfg: &Cfg) -> String {
    let mut s = format!("t{} n{} s{};", cfg.n_t, cfg.n_n, cfg.start);
    for r in &cfg.rules {
        s.push_str(&format!("{}>", r.lhs));
        for x in &r.rhs {
            match x {
                S::T(t) => s.push_str(&format!("t{t} ")),
                S::N(n) => s.push_str(&format!("n{n} ")),
            }
        }
        s.push(';');
    }
    s
}

#[cfg(test)]
mod tests {
    use super::*;

    fn g(n_t: usize, n_n: usize, start: u16, rules: &[(u16, &[S])]) -> Cfg {
        Cfg { n_t, n_n, start, rules: rules.iter().map(|(l, r)| Rule { lhs: *l, rhs: r.to_vec() }).collect() }
    }

    #[test]
    fn dragon_lalr_not_slr() {
        // S -> L = R | R ; L -> * R | id ; R -> L        terminals: = * id
        use S::*;
        let cfg = g(3, 3, 0, &[(0, &[N(1), T(0), N(2)]), (0, &[N(2)]), (1, &[T(1), N(2)]), (1, &[T(2)]), (2, &[N(1)])]);
        let a = Analysis::new(&cfg).unwrap();
        assert_eq!(a.class(), Class::LalrNotSlr);
        assert_eq!(a.lalr.states.len(), 10);
        assert_eq!(a.lr1.states.len(), 14);
    }

    #[test]
    fn lr1_not_lalr() {
        // S -> a A d | b B d | a B e | b A e ; A -> c ; B -> c     terminals a b c d e
        use S::*;
        let cfg = g(
            5,
            3,
            0,
            &[
                (0, &[T(0), N(1), T(3)]),
                (0, &[T(1), N(2), T(3)]),
                (0, &[T(0), N(2), T(4)]),
                (0, &[T(1), N(1), T(4)]),
                (1, &[T(2)]),
                (2, &[T(2)]),
            ],
        );
        let a = Analysis::new(&cfg).unwrap();
        assert_eq!(a.class(), Class::Lr1NotLalr);
    }

    #[test]
    fn ambiguous_expr() {
        use S::*;
        let cfg = g(2, 1, 0, &[(0, &[N(0), T(0), N(0)]), (0, &[T(1)])]);
        let a = Analysis::new(&cfg).unwrap();
        assert_eq!(a.class(), Class::NotLr1);
    }

    #[test]
    fn earley_vs_lr_balanced() {
        use S::*;
        // E -> ( E ) E | eps
        let cfg = g(2, 1, 0, &[(0, &[T(0), N(0), T(1), N(0)]), (0, &[])]);
        let a = Analysis::new(&cfg).unwrap();
        assert!(a.lalr_ok());
        for len in 0..8usize {
            for bits in 0..(1u32 << len) {
                let input: Vec<u16> = (0..len).map(|i| (bits >> i & 1) as u16).collect();
                let e = earley(&cfg, &a.sets, &input);
                let p = drive(&cfg, a.lr1.start, &a.lr1_tables, &input);
                let p2 = drive(&cfg, a.lalr.start, &a.lalr_tables, &input);
                match (&p, &p2) {
                    (Parse::Accept(t1), Parse::Accept(t2)) => {
                        assert!(e.accepted);
                        assert_eq!(t1, t2);
                    }
                    (Parse::Error(i), Parse::Error(j)) => {
                        assert!(!e.accepted);
                        assert_eq!(i, j);
                        assert_eq!(*i, e.dead_at);
                    }
                    _ => panic!(),
                }
            }
        }
    }
}
