#!/usr/bin/env bash
# usage: tools/verify_seed.sh <out-dir under /tmp/seed> <worktree id e.g. C04> <seeded dir name> <checks...>
# Copies the deliverables, re-verifies tests + demo.rs in the agent's worktree (patch applied there), then runs our checks.
root=${SEEDROOT:-/tmp/seed}; out=$root/$1; wt=$root/wt-$2; name=$3; shift 3
cd "$(dirname "$0")/.."
d=seeded/$name; mkdir -p $d
cp $out/patch.diff $out/meta.json $d/; [ -f $out/demo.rs ] && cp $out/demo.rs $d/
grep "^[-+]" $d/patch.diff | grep -v "^+++\|^---" | head -20
export CARGO_TARGET_DIR=$wt/target
( cd $wt && echo "status: $(git status --short | tr '\n' ' ')" && cargo test --workspace --offline 2>&1 | grep -E "^test result" | head -2
  mkdir -p kiki/tests && cp $out/demo.rs kiki/tests/demo.rs
  echo "demo with patch:    $(cargo test --offline --manifest-path kiki/Cargo.toml --test demo 2>&1 | grep -E '^test result')"
  git stash -q -- kiki/src
  echo "demo without patch: $(cargo test --offline --manifest-path kiki/Cargo.toml --test demo 2>&1 | grep -E '^test result')"
  git stash pop -q; rm -rf kiki/tests )
unset CARGO_TARGET_DIR
if [ -n "${ISOLATED:-}" ]; then
    # /repo is being read by a long run: test on copies (results are not merged into checks_quick.json; re-run tools/seeded.sh later)
    tools/seeded_isolated.sh $name "$@"
else
    tools/seeded.sh $name "$@"
fi
