//! C05 (emitted module compiles for any legal naming, no trait bounds) and
//! C06 (emitted types and parse signature mirror the declarations): rustc is
//! the oracle (engine E2), plus a text-order comparison for C06.

use super::common::*;
use super::lalr::quota_check;
use crate::ast::*;
use crate::cfg::Analysis;
use crate::e2::{self, Scratch};
use crate::emitted::{self, EFs};
use crate::engine::*;
use crate::gen::{self, RawGrammar};
use crate::layout::Chooser;
use crate::outcome::{self, Outcome};
use crate::spec::{self, Form, Naming, Spec, Sym};
use proptest::prelude::*;
use serde_json::{json, Value};

/// Names the generator's templates use themselves (and their uniquified forms).
pub const HELPER_TYPE_NAMES: [&str; 40] = [
    "State", "Node", "Action", "RuleKind", "Eof", "Quasiterminal", "QuasiterminalKind", "NonterminalKind", "ACTION_TABLE", "GOTO_TABLE", "S", "T", "R0",
    "S0", "Terminal", "Shift", "Reduce", "Accept", "Error", "Item", "Output", "State2", "Eof2", "Node2", "Node3", "S2", "Action2", "RuleKind2",
    "Quasiterminal2", "QuasiterminalKind2", "NonterminalKind2", "ACTION_TABLE2", "GOTO_TABLE2", "IntoIter", "Self_", "N", "R1", "S1", "Reduce2", "Tok",
];
/// Locals, parameters and function names of the templates, as candidate field names.
pub const HELPER_FIELD_NAMES: [&str; 40] = [
    "states", "nodes", "node", "n", "t", "t0", "t1", "src", "terminal", "rule_kind", "new_node", "top_state", "quasiterminals", "new_state",
    "next_quasiterminal_kind", "new_node_kind", "temp_top_state", "quasiterminal", "parse", "reduce", "pop_and_reduce", "get_action", "get_goto",
    "from_terminal", "try_from", "try_into_terminal", "_states", "_nodes", "states_0", "nodes_1", "t0_0", "std", "core", "usize", "str", "vec", "main",
    "try_into", "reduce_r0", "ok",
];
pub const LETTERLESS: [&str; 8] = ["_0", "__", "_1_0", "___0", "_1", "____", "_00", "__0_"];
pub const OTHER_UPPER: [&str; 16] =
    ["A", "B", "Z", "Aa", "AA", "Aa_", "X9", "A_very_long_nonterminal_name_that_goes_on_and_on_0123456789", "Foo", "FOO", "FoO", "Q_", "_A", "_9Z", "Expr", "List"];
pub const OTHER_LOWER: [&str; 12] = ["a", "b", "z", "x9", "a_very_long_field_name_that_goes_on_and_on_0123456789", "foo", "fOO", "_a", "inner", "left", "right", "aA"];

/// Rust strict / reserved keywords and the 2021 std prelude: excluded by the stated precondition.
pub const FORBIDDEN: &[&str] = &[
    "as", "break", "const", "continue", "crate", "else", "enum", "extern", "false", "fn", "for", "if", "impl", "in", "let", "loop", "match", "mod", "move",
    "mut", "pub", "ref", "return", "self", "Self", "static", "struct", "super", "trait", "true", "type", "unsafe", "use", "where", "while", "async",
    "await", "dyn", "abstract", "become", "box", "do", "final", "macro", "override", "priv", "typeof", "unsized", "virtual", "yield", "try", "gen",
    "union", "macro_rules", "Option", "Some", "None", "Result", "Ok", "Err", "Vec", "String", "Box", "ToString", "ToOwned", "Clone", "Copy", "Send",
    "Sync", "Sized", "Drop", "Fn", "FnMut", "FnOnce", "drop", "AsRef", "AsMut", "Into", "From", "Default", "Iterator", "Extend", "IntoIterator",
    "DoubleEndedIterator", "ExactSizeIterator", "Eq", "Ord", "PartialEq", "PartialOrd", "TryFrom", "TryInto", "FromIterator", "Unpin", "Debug", "Hash",
    "assert", "assert_eq", "assert_ne", "cfg", "column", "compile_error", "concat", "env", "file", "format", "format_args", "include", "line", "matches",
    "module_path", "option_env", "panic", "print", "println", "eprint", "eprintln", "stringify", "todo", "unimplemented", "unreachable", "vec_", "write",
    "writeln", "start", "terminal",
];

fn is_forbidden(s: &str) -> bool {
    s == "_" || s == "r#" || FORBIDDEN.contains(&s)
}

fn uniq(base: &str, taken: &mut Vec<String>) -> String {
    let mut name = base.to_string();
    let mut k = 1;
    while taken.contains(&name) || is_forbidden(&name) {
        k += 1;
        name = format!("{base}{k}");
    }
    taken.push(name.clone());
    name
}

fn pick_upper(ch: &mut Chooser) -> (&'static str, bool) {
    match ch.pick(10) {
        0..=5 => (HELPER_TYPE_NAMES[ch.pick(HELPER_TYPE_NAMES.len())], true),
        6 => (LETTERLESS[ch.pick(LETTERLESS.len())], true),
        _ => (OTHER_UPPER[ch.pick(OTHER_UPPER.len())], false),
    }
}

fn pick_lower(ch: &mut Chooser) -> (&'static str, bool) {
    match ch.pick(10) {
        0..=5 => (HELPER_FIELD_NAMES[ch.pick(HELPER_FIELD_NAMES.len())], true),
        6 => (LETTERLESS[ch.pick(LETTERLESS.len())], true),
        _ => (OTHER_LOWER[ch.pick(OTHER_LOWER.len())], false),
    }
}

/// Payload type universe defined by the compiled crate root — none of the crate types has any derive.
pub const UNIVERSE_SRC: &str = r#"
pub struct P0(pub usize);
pub struct Pos(pub usize);
pub mod pa {
    pub mod pb {
        pub struct P1(pub usize);
    }
    pub struct G2<A, B>(pub A, pub B);
}
pub struct G1<A>(pub A);
pub struct G3<A, B, C>(pub A, pub B, pub C);
"#;

fn ids(s: &[&str]) -> Vec<Id> {
    s.iter().map(|x| Id::new(x)).collect()
}

pub fn universe_type(ch: &mut Chooser, depth: usize) -> RType {
    let leaf = |ch: &mut Chooser| -> RType {
        match ch.pick(9) {
            0 => RType::Unit,
            1 => RType::Path(ids(&["crate", "P0"])),
            2 => RType::Path(ids(&["crate", "pa", "pb", "P1"])),
            3 => RType::Path(ids(&["String"])),
            4 => RType::Path(ids(&["usize"])),
            5 => RType::Path(ids(&["isize"])),
            6 => RType::Path(ids(&["std", "string", "String"])),
            7 => RType::Path(ids(&["crate", "Pos"])),
            _ => RType::Path(ids(&["core", "primitive", "u8"])),
        }
    };
    if depth >= 4 || ch.pick(3) == 0 {
        return leaf(ch);
    }
    match ch.pick(8) {
        0 => RType::Generic(ids(&["crate", "G1"]), vec![universe_type(ch, depth + 1)]),
        1 => RType::Generic(ids(&["crate", "pa", "G2"]), vec![universe_type(ch, depth + 1), universe_type(ch, depth + 1)]),
        2 => RType::Generic(ids(&["crate", "G3"]), vec![universe_type(ch, depth + 1), universe_type(ch, depth + 1), universe_type(ch, depth + 1)]),
        3 => RType::Generic(ids(&["Vec"]), vec![universe_type(ch, depth + 1)]),
        4 => RType::Generic(ids(&["Option"]), vec![universe_type(ch, depth + 1)]),
        5 => RType::Generic(ids(&["std", "boxed", "Box"]), vec![universe_type(ch, depth + 1)]),
        6 => RType::Generic(ids(&["std", "collections", "HashMap"]), vec![universe_type(ch, depth + 1), universe_type(ch, depth + 1)]),
        _ => RType::Generic(ids(&["Result"]), vec![universe_type(ch, depth + 1), universe_type(ch, depth + 1)]),
    }
}

pub struct AdvNaming {
    pub naming: Naming,
    /// user identifiers that collide with helper names / template locals / are letter-less
    pub collisions: Vec<String>,
    /// known findings avoided by construction (id -> count)
    pub excluded: Vec<&'static str>,
}

/// G2 — adversarial identifier assignment (valid per kiki's rules and the stated preconditions).
pub fn adversarial_naming(spec: &Spec, ch: &mut Chooser) -> AdvNaming {
    let mut nm = Naming::conventional(spec);
    let mut collisions = vec![];
    let mut excluded = vec![];
    let mut top: Vec<String> = vec![];
    let take_upper = |ch: &mut Chooser, taken: &mut Vec<String>, collisions: &mut Vec<String>| -> String {
        let (b, hot) = pick_upper(ch);
        let n = uniq(b, taken);
        if hot {
            collisions.push(n.clone());
        }
        n
    };
    nm.term_enum = take_upper(ch, &mut top, &mut collisions);
    for i in 0..nm.nts.len() {
        nm.nts[i] = take_upper(ch, &mut top, &mut collisions);
    }
    for i in 0..nm.terms.len() {
        nm.terms[i] = take_upper(ch, &mut top, &mut collisions);
    }
    for i in 0..nm.variants.len() {
        let mut taken = vec![];
        for j in 0..nm.variants[i].len() {
            let mut v = take_upper(ch, &mut taken, &mut collisions);
            // KNOWN FINDING C05/variant-named-Error: a variant called `Error` makes `Self::Error` ambiguous
            if v == "Error" {
                excluded.push("variant-named-Error");
                taken.pop();
                v = uniq("Error_", &mut taken);
            }
            nm.variants[i][j] = v;
        }
    }
    for i in 0..nm.fields.len() {
        for j in 0..nm.fields[i].len() {
            let mut taken = vec![];
            for k in 0..nm.fields[i][j].len() {
                let (b, hot) = pick_lower(ch);
                let f = uniq(b, &mut taken);
                // (a letter-less field whose local `<field>_<index>` equals the name of a unit-like or tuple struct was
                // excluded here while finding `letterless-local-vs-struct` was open; it was repaired in ca28de6)
                if hot {
                    collisions.push(f.clone());
                }
                nm.fields[i][j][k] = f;
            }
        }
    }
    for t in nm.term_types.iter_mut() {
        *t = universe_type(ch, 0);
    }
    AdvNaming { naming: nm, collisions, excluded }
}

#[derive(Clone, Debug)]
pub struct RawHyg {
    pub grammar: RawGrammar,
    pub choices: Vec<u16>,
}

fn raw_hyg() -> impl Strategy<Value = RawHyg> {
    (gen::raw_grammar(), proptest::collection::vec(any::<u16>(), 16..96)).prop_map(|(mut grammar, choices)| {
        grammar.source |= 2;
        // shapes that matter for the emitted definitions: one fieldset in six becomes all-`_` (unit-like collapse),
        // one in six keeps exactly one used field among several
        for (i, nt) in grammar.nts.iter_mut().enumerate() {
            for (j, v) in nt.variants.iter_mut().enumerate() {
                match choices[(i * 5 + j * 11 + 7) % choices.len()] % 6 {
                    0 => v.fields.iter_mut().for_each(|f| f.1 = false),
                    1 => {
                        let keep = choices[(i + j + 9) % choices.len()] as usize;
                        let n = v.fields.len().max(1);
                        for (k, f) in v.fields.iter_mut().enumerate() {
                            f.1 = k == keep % n;
                        }
                    }
                    _ => {}
                }
            }
        }
        // one case in 32 is a scaled family, a third of them at the family's maximum size
        if choices[5] % 32 == 0 {
            grammar.source = 1;
            grammar.seed_ix = 0xFAAB + choices[6] % 0x0554;
            grammar.edits.truncate(1);
            if choices[7] % 3 == 0 {
                grammar.start = 0xFFFF;
            }
        }
        RawHyg { grammar, choices }
    })
}

fn normalise_diag(diag: &str) -> String {
    // error code + first message line of every error, for signatures
    let mut v: Vec<String> = diag.lines().filter(|l| l.starts_with("error")).take(4).map(|l| l.to_string()).collect();
    v.retain(|l| !l.starts_with("error: aborting"));
    v.join(" | ")
}

// ---------------------------------------------------------------------------
// C05

pub fn c05_judge(ctx: &Ctx, src: &str) -> Result<bool, Failure> {
    let case = text_case(src);
    let emitted = match outcome::generate(src) {
        Outcome::Ok(t) => t,
        _ => return Ok(false),
    };
    let scratch = Scratch::new(&ctx.root, "c05").map_err(|e| Failure::internal("scratch", e.to_string(), Value::Null))?;
    std::fs::write(scratch.dir.join("g.rs"), &emitted).map_err(|e| Failure::internal("scratch", e.to_string(), Value::Null))?;
    // crate root: the payload universe and the module, nothing else — in particular no `allow`
    let root = format!("{UNIVERSE_SRC}\n#[path = \"g.rs\"]\npub mod g;\n");
    std::fs::write(scratch.dir.join("lib.rs"), root).map_err(|e| Failure::internal("scratch", e.to_string(), Value::Null))?;
    let r = e2::rustc(&scratch.dir, "lib.rs", "lib.rmeta", true);
    if r.ok {
        return Ok(true);
    }
    if r.diagnostics.contains("cannot run rustc") {
        return Err(Failure::internal("rustc-missing", r.diagnostics, Value::Null));
    }
    Err(Failure::new("does-not-compile", format!("{}\n--- rustc diagnostics ---\n{}", normalise_diag(&r.diagnostics), truncate(&r.diagnostics, 4000)), case))
}

fn truncate(s: &str, n: usize) -> String {
    if s.len() <= n {
        s.to_string()
    } else {
        let mut e = n;
        while !s.is_char_boundary(e) {
            e -= 1;
        }
        format!("{}…", &s[..e])
    }
}

fn accepted_spec(raw: &RawGrammar, st: &mut Stats) -> Option<(Spec, Analysis)> {
    let (spec, source) = gen::build(raw);
    let cfg = spec.cfg();
    // scaled families up to moderate sizes are let through (a type-check of their modules costs < 1 s): long lists of
    // items, variants and terminals, three-digit indices in helper names
    let scaled = matches!(source, gen::Source::SeedEdits | gen::Source::SeedEditsRepair) && gen::scaled_choice(raw).is_some();
    if scaled {
        st.class("gen:scaled-family");
    }
    if (!scaled && (cfg.n_n > 26 || cfg.rules.len() > 64)) || cfg.n_n > 130 || cfg.rules.len() > 200 {
        st.discard("grammar too large for the compiled tier");
        return None;
    }
    let Ok(a) = Analysis::new(&cfg) else {
        st.discard("reference LR(1) collection exceeds cap");
        return None;
    };
    if !a.lalr_ok() {
        st.discard("grammar has LALR(1) conflicts (nothing is emitted)");
        return None;
    }
    Some((spec, a))
}

fn c05_test(ctx: &Ctx, raw: &RawHyg, st: &mut Stats) -> Result<(), Failure> {
    let Some((spec, _)) = accepted_spec(&raw.grammar, st) else { return Ok(()) };
    let mut ch = Chooser::new(&raw.choices);
    let adv = adversarial_naming(&spec, &mut ch);
    for e in &adv.excluded {
        *st.extra.entry(format!("excluded-known:{e}")).or_insert(0) += 1;
    }
    let src = render_plain(&spec::to_rfile(&spec, &adv.naming).atoms());
    if !c05_judge(ctx, &src)? {
        st.discard("kiki does not accept the renamed grammar");
        return Ok(());
    }
    st.class(&format!("colliding-names:{}", adv.collisions.len().min(6)));
    if spec.n_terms == 0 {
        st.class("shape:zero-terminals");
    }
    if spec.nts.iter().any(|n| n.is_enum && n.variants.is_empty()) {
        st.class("shape:has-variantless-enum");
    }
    if adv.collisions.len() >= 2 {
        let mut c = adv.collisions.clone();
        c.sort();
        st.nontrivial(&(c, crate::cfg::canon(&spec.cfg())));
        if st.want_sample() {
            st.sample(json!({"source": src, "colliding_names": adv.collisions}));
        }
    }
    Ok(())
}

pub fn c05_replay(ctx: &Ctx, case: &Value) -> Result<(), Failure> {
    match c05_judge(ctx, &case_text(case)?)? {
        true => Ok(()),
        false => Err(Failure::internal("not-accepted", "kiki does not accept this grammar".into(), case.clone())),
    }
}

/// Replays the probes of open known findings; returns the KNOWN-FINDING lines (finding still present).
fn known_findings<F>(ctx: &Ctx, rep: &mut Report, prop: &str, judge: F)
where
    F: Fn(&Value) -> Result<(), Failure>,
{
    for f in load_findings(&ctx.root).into_iter().filter(|f| f.property == prop) {
        match f.status.as_str() {
            "open" => match judge(&f.probe) {
                Ok(()) => rep.notes.push(format!("known finding {} no longer reproduces on its probe", f.id)),
                Err(fl) if fl.internal => rep.internal.push(fl),
                Err(fl) => {
                    if fl.signature().contains(&f.signature) {
                        rep.known_lines.push(format!("{} [{}]", f.what, f.id));
                    } else {
                        // the probe fails differently than recorded: a different violation
                        rep.violations.push(fl);
                    }
                }
            },
            // fixed entries suppress nothing: their minimal inputs live in corpus/regress/<id>/ and are replayed by every run
            _ => {}
        }
    }
}

fn regress_ctx(ctx: &Ctx, rep: &mut Report, prop: &str, f: &dyn Fn(&Value) -> Result<(), Failure>) {
    let dir = ctx.root.join("corpus").join("regress").join(prop);
    let Ok(rd) = std::fs::read_dir(&dir) else { return };
    let mut files: Vec<_> = rd.filter_map(|e| e.ok()).map(|e| e.path()).filter(|p| p.extension().map_or(false, |x| x == "json")).collect();
    files.sort();
    for p in files {
        let Ok(v) = std::fs::read_to_string(&p).map_err(|_| ()).and_then(|t| serde_json::from_str::<Value>(&t).map_err(|_| ())) else { continue };
        let case = if v.get("case").is_some() { v["case"].clone() } else { v };
        rep.regress_replayed += 1;
        rep.stats.evaluations += 1;
        if let Err(fl) = f(&case) {
            if fl.internal {
                rep.internal.push(fl)
            } else {
                rep.violations.push(fl)
            }
        }
    }
}

pub const C05_RULE: &str = "accepted grammars (conflict-repaired sources, incl. zero terminals and variant-less enums) under adversarial identifier assignments for nonterminals, variants, fields, terminals and the terminal enum: ~60% of the names come from the generator's own helper names (State, Node, Action, RuleKind, Eof, Quasiterminal, QuasiterminalKind, NonterminalKind, ACTION_TABLE, GOTO_TABLE, S, T, R0, S0, Terminal, Shift, Reduce, Accept, Error, Item, Output, their uniquified forms State2/Eof2/..., template locals and function names as field names: states, nodes, node, n, t, t0, src, terminal, rule_kind, parse, reduce, ...), letter-less identifiers, single letters, long names, names differing only in case; Rust keywords and 2021 prelude names excluded, field names distinct per fieldset; payload types from a universe of crate types WITHOUT ANY derive plus std generics. Oracle: rustc --emit=metadata on a crate root that contains only the payload universe and `mod g;` (no allow attributes, default lint levels: deny-by-default lints count). Non-trivial = >= 2 user identifiers collide with helper names / template locals / are letter-less; distinct = (sorted colliding names, canonical grammar).";

pub fn c05_run(ctx: &Ctx) -> i32 {
    let mut rep = Report::new(ctx, C05_RULE);
    rep.assumptions = vec![
        "rustc 1.95 (the toolchain that builds the repository) is the judge of 'compiles'".into(),
        "known findings listed in known_findings.json are excluded by construction (counted under extra.excluded-known:*) and probed separately".into(),
    ];
    known_findings(ctx, &mut rep, "C05", |case| c05_replay(ctx, case));
    regress_ctx(ctx, &mut rep, "C05", &|case| c05_replay(ctx, case));
    let mut c2 = ctx.clone();
    c2.shrink_iters = 64;
    let out = run_sharded(&c2, "C05", ctx.budget(1_000, 16_000), raw_hyg, |raw, st| c05_test(ctx, raw, st));
    rep.absorb("E2-rustc-typecheck", out);
    quota_check(&mut rep, &["colliding-names:6", "shape:zero-terminals", "shape:has-variantless-enum"]);
    rep.finish()
}

// ---------------------------------------------------------------------------
// C06

/// Client that constructs and destructures every emitted type in the expected shape (outside the module).
pub fn c06_client(spec: &Spec, nm: &Naming) -> String {
    let mut s = String::new();
    s.push_str("#![allow(warnings)]\n");
    s.push_str(UNIVERSE_SRC);
    s.push_str("#[path = \"g.rs\"]\npub mod g;\n\n");
    let tok = format!("g::{}", nm.term_enum);
    let ty_of = |sym: Sym| -> String {
        match sym {
            Sym::N(n) => format!("Box<g::{}>", nm.nts[n]),
            Sym::T(t) => nm.term_types[t].render(),
        }
    };
    for (n, nt) in spec.nts.iter().enumerate() {
        let name = format!("g::{}", nm.nts[n]);
        // destructure (exhaustive, no `..`, no wildcard) with every binding ascribed its expected type
        s.push_str(&format!("fn destructure_{n}(v: {name}) {{\n"));
        let arm = |j: usize, path: &str| -> (String, String) {
            let fs = &nt.variants[j];
            if !fs.has_used() {
                return (path.to_string(), String::new());
            }
            let named = fs.form == Form::Named;
            let mut pat = String::new();
            let mut body = String::new();
            for (k, f) in fs.fields.iter().enumerate().filter(|(_, f)| f.used) {
                if named {
                    pat.push_str(&format!("{}: x{k}, ", nm.fields[n][j][k]));
                } else {
                    pat.push_str(&format!("x{k}, "));
                }
                body.push_str(&format!("let _: {} = x{k}; ", ty_of(f.sym)));
            }
            (if named { format!("{path} {{ {pat}}}") } else { format!("{path}({pat})") }, body)
        };
        if nt.is_enum {
            if nt.variants.is_empty() {
                s.push_str("    match v {}\n");
            } else {
                s.push_str("    match v {\n");
                for j in 0..nt.variants.len() {
                    let (pat, body) = arm(j, &format!("{name}::{}", nm.variants[n][j]));
                    s.push_str(&format!("        {pat} => {{ {body}}}\n"));
                }
                s.push_str("    }\n");
            }
        } else {
            let (pat, body) = arm(0, &name);
            s.push_str(&format!("    let {pat} = v;\n    {body}\n"));
        }
        s.push_str("}\n");
        // construct from parts
        for (j, fs) in nt.variants.iter().enumerate() {
            let params: Vec<String> = fs.fields.iter().enumerate().filter(|(_, f)| f.used).map(|(k, f)| format!("x{k}: {}", ty_of(f.sym))).collect();
            let path = if nt.is_enum { format!("{name}::{}", nm.variants[n][j]) } else { name.clone() };
            let expr = if !fs.has_used() {
                path
            } else if fs.form == Form::Named {
                format!(
                    "{path} {{ {} }}",
                    fs.fields.iter().enumerate().filter(|(_, f)| f.used).map(|(k, _)| format!("{}: x{k}", nm.fields[n][j][k])).collect::<Vec<_>>().join(", ")
                )
            } else {
                format!("{path}({})", fs.fields.iter().enumerate().filter(|(_, f)| f.used).map(|(k, _)| format!("x{k}")).collect::<Vec<_>>().join(", "))
            };
            s.push_str(&format!("fn construct_{n}_{j}({}) -> {name} {{ {expr} }}\n", params.join(", ")));
        }
    }
    // terminal enum: exhaustive match with payload types ascribed, construction of every variant
    s.push_str(&format!("fn terminal_enum(v: {tok}) {{\n    match v {{\n"));
    for (t, tn) in nm.terms.iter().enumerate() {
        s.push_str(&format!("        {tok}::{tn}(p) => {{ let _: {} = p; }}\n", nm.term_types[t].render()));
    }
    s.push_str("    }\n}\n");
    for (t, tn) in nm.terms.iter().enumerate() {
        s.push_str(&format!("fn make_terminal_{t}(p: {}) -> {tok} {{ {tok}::{tn}(p) }}\n", nm.term_types[t].render()));
    }
    // parse signature: any IntoIterator of the terminal enum, Result<start, Option<terminal enum>>
    let start = format!("g::{}", nm.nts[spec.start]);
    s.push_str(&format!(
        r#"
pub struct Lazy(usize);
impl Iterator for Lazy {{
    type Item = {tok};
    fn next(&mut self) -> Option<{tok}> {{ None }}
}}
pub struct Coll;
impl IntoIterator for Coll {{
    type Item = {tok};
    type IntoIter = Lazy;
    fn into_iter(self) -> Lazy {{ Lazy(0) }}
}}
fn signature() {{
    let _: fn(Vec<{tok}>) -> Result<{start}, Option<{tok}>> = g::parse::<Vec<{tok}>>;
    let _: fn(Lazy) -> Result<{start}, Option<{tok}>> = g::parse::<Lazy>;
    let _: fn(Coll) -> Result<{start}, Option<{tok}>> = g::parse::<Coll>;
    let _: fn(std::iter::Empty<{tok}>) -> Result<{start}, Option<{tok}>> = g::parse::<std::iter::Empty<{tok}>>;
    let _: fn([{tok}; 2]) -> Result<{start}, Option<{tok}>> = g::parse::<[{tok}; 2]>;
    let _: fn(Option<{tok}>) -> Result<{start}, Option<{tok}>> = g::parse::<Option<{tok}>>;
    let _: fn(std::collections::VecDeque<{tok}>) -> Result<{start}, Option<{tok}>> = g::parse;
}}
"#
    ));
    s
}

/// Text-order oracle: names, variant order, field order, `pub`, unit-like collapse.
pub fn c06_text(spec: &Spec, nm: &Naming, emitted_text: &str) -> Result<(), String> {
    let types = emitted::read_types(emitted_text)?;
    if types.len() != spec.nts.len() + 1 {
        return Err(format!("{} public type definitions emitted, expected {} (terminal enum + one per nonterminal)", types.len(), spec.nts.len() + 1));
    }
    let te = &types[0];
    if !te.is_pub || !te.is_enum || te.name != nm.term_enum {
        return Err(format!("first definition is `{}{} {}`, expected `pub enum {}`", if te.is_pub { "pub " } else { "" }, if te.is_enum { "enum" } else { "struct" }, te.name, nm.term_enum));
    }
    let tvars: Vec<&String> = te.variants.iter().map(|(n, _)| n).collect();
    if tvars != nm.terms.iter().collect::<Vec<_>>() {
        return Err(format!("terminal enum variants {tvars:?}, declared {:?}", nm.terms));
    }
    for (t, (_, fs)) in te.variants.iter().enumerate() {
        match fs {
            EFs::Tuple(v) if v.len() == 1 => {}
            other => return Err(format!("terminal variant {} has shape {other:?}, expected one payload", nm.terms[t])),
        }
    }
    for (n, nt) in spec.nts.iter().enumerate() {
        let et = &types[n + 1];
        if et.name != nm.nts[n] || et.is_enum != nt.is_enum || !et.is_pub {
            return Err(format!(
                "definition #{} is `{}{} {}`, expected `pub {} {}` (declaration order)",
                n + 1,
                if et.is_pub { "pub " } else { "" },
                if et.is_enum { "enum" } else { "struct" },
                et.name,
                if nt.is_enum { "enum" } else { "struct" },
                nm.nts[n]
            ));
        }
        if et.variants.len() != nt.variants.len() {
            return Err(format!("{} has {} variants, declared {}", nm.nts[n], et.variants.len(), nt.variants.len()));
        }
        for (j, fs) in nt.variants.iter().enumerate() {
            let (vn, efs) = &et.variants[j];
            if nt.is_enum && *vn != nm.variants[n][j] {
                return Err(format!("{} variant #{j} is {vn}, declared {}", nm.nts[n], nm.variants[n][j]));
            }
            let used: Vec<(usize, &spec::SField)> = fs.fields.iter().enumerate().filter(|(_, f)| f.used).collect();
            let ty_of = |sym: Sym| -> Vec<String> {
                match sym {
                    Sym::N(m) => vec!["Box".into(), "<".into(), nm.nts[m].clone(), ">".into()],
                    Sym::T(t) => nm.term_types[t].token_vec(),
                }
            };
            let where_ = if nt.is_enum { format!("{}::{}", nm.nts[n], nm.variants[n][j]) } else { nm.nts[n].clone() };
            match (used.is_empty(), fs.form, efs) {
                (true, _, EFs::Unit) => {}
                (true, _, other) => return Err(format!("{where_} has only `_` fields / no fields and must be unit-like; emitted {other:?}")),
                (false, Form::Named, EFs::Named(got)) => {
                    if got.len() != used.len() {
                        return Err(format!("{where_}: {} fields emitted, {} used fields declared", got.len(), used.len()));
                    }
                    for ((k, f), (is_pub, gname, gty)) in used.iter().zip(got) {
                        if *gname != nm.fields[n][j][*k] {
                            return Err(format!("{where_}: field `{gname}` emitted where `{}` is declared (declaration order)", nm.fields[n][j][*k]));
                        }
                        if !nt.is_enum && !*is_pub {
                            return Err(format!("{where_}: struct field `{gname}` is not pub"));
                        }
                        if emitted::type_tokens(gty)? != ty_of(f.sym) {
                            return Err(format!("{where_}.{gname}: type `{gty}`, expected {:?}", ty_of(f.sym).join("")));
                        }
                    }
                }
                (false, Form::Tuple, EFs::Tuple(got)) => {
                    if got.len() != used.len() {
                        return Err(format!("{where_}: {} fields emitted, {} used fields declared", got.len(), used.len()));
                    }
                    for ((k, f), (is_pub, ty)) in used.iter().zip(got) {
                        if !nt.is_enum && !*is_pub {
                            return Err(format!("{where_}: tuple struct field #{k} is not pub"));
                        }
                        if emitted::type_tokens(ty)? != ty_of(f.sym) {
                            return Err(format!("{where_}.{k}: type `{ty}`, expected {:?}", ty_of(f.sym).join("")));
                        }
                    }
                }
                (false, form, other) => return Err(format!("{where_}: declared as {form:?} fieldset, emitted {other:?}")),
            }
        }
    }
    Ok(())
}

pub fn c06_judge(ctx: &Ctx, src: &str) -> Result<Option<(Spec, Naming)>, Failure> {
    let case = text_case(src);
    let toks = crate::reftok::tokenize(src).map_err(|_| Failure::internal("not-lexically-valid", "C06 case does not lex".into(), case.clone()))?;
    let file = crate::refparse::read_file(&toks).map_err(|_| Failure::internal("not-syntactically-valid", "C06 case does not parse".into(), case.clone()))?;
    let Some((spec, nm)) = spec::from_rfile(&file) else {
        return Err(Failure::internal("not-wellformed", "C06 case is not a well-formed grammar".into(), case));
    };
    let emitted_text = match outcome::generate(src) {
        Outcome::Ok(t) => t,
        _ => return Ok(None),
    };
    if let Err(e) = emitted::read_types(&emitted_text) {
        // the reader's limits are not the generator's fault: inconclusive (the rustc client below still judges shapes)
        return Err(Failure::internal("unreadable-type-region", format!("the harness cannot read the emitted type definitions: {e}"), case));
    }
    if let Err(e) = c06_text(&spec, &nm, &emitted_text) {
        return Err(Failure::new("type-definitions-differ", e, case));
    }
    let scratch = Scratch::new(&ctx.root, "c06").map_err(|e| Failure::internal("scratch", e.to_string(), Value::Null))?;
    std::fs::write(scratch.dir.join("g.rs"), &emitted_text).map_err(|e| Failure::internal("scratch", e.to_string(), Value::Null))?;
    std::fs::write(scratch.dir.join("lib.rs"), c06_client(&spec, &nm)).map_err(|e| Failure::internal("scratch", e.to_string(), Value::Null))?;
    let r = e2::rustc(&scratch.dir, "lib.rs", "lib.rmeta", true);
    if r.ok {
        return Ok(Some((spec, nm)));
    }
    if r.diagnostics.contains("cannot run rustc") {
        return Err(Failure::internal("rustc-missing", r.diagnostics, Value::Null));
    }
    // does the module compile on its own? if not, that is C05's subject
    std::fs::write(scratch.dir.join("alone.rs"), format!("#![allow(warnings)]\n{UNIVERSE_SRC}\n#[path = \"g.rs\"]\npub mod g;\n")).ok();
    let alone = e2::rustc(&scratch.dir, "alone.rs", "alone.rmeta", true);
    if !alone.ok {
        return Err(Failure::internal("skip:module-does-not-compile", format!("C05 judges this: {}", normalise_diag(&alone.diagnostics)), case));
    }
    Err(Failure::new(
        "client-does-not-typecheck",
        format!(
            "a client that constructs and destructures every emitted type in the declared shape (and takes `parse` at the documented signature) does not type-check: {}\n--- rustc diagnostics ---\n{}",
            normalise_diag(&r.diagnostics),
            truncate(&r.diagnostics, 4000)
        ),
        case,
    ))
}

fn c06_test(ctx: &Ctx, raw: &RawHyg, st: &mut Stats) -> Result<(), Failure> {
    let Some((spec, _)) = accepted_spec(&raw.grammar, st) else { return Ok(()) };
    let mut ch = Chooser::new(&raw.choices);
    let adv = adversarial_naming(&spec, &mut ch);
    let src = render_plain(&spec::to_rfile(&spec, &adv.naming).atoms());
    match c06_judge(ctx, &src) {
        Ok(Some(_)) => {}
        Ok(None) => {
            st.discard("kiki does not accept the renamed grammar");
            return Ok(());
        }
        Err(f) if f.internal && f.kind.starts_with("skip:") => {
            st.discard("emitted module does not compile on its own (C05 judges that)");
            return Ok(());
        }
        Err(f) => return Err(f),
    }
    let all_skip = spec.nts.iter().flat_map(|n| &n.variants).any(|v| !v.fields.is_empty() && !v.has_used());
    let mixed = spec.nts.iter().flat_map(|n| &n.variants).any(|v| v.has_used() && v.fields.iter().any(|f| !f.used));
    let both = spec.nts.iter().any(|n| n.is_enum) && spec.nts.iter().any(|n| !n.is_enum);
    let tuple_struct = spec.nts.iter().any(|n| !n.is_enum && n.variants[0].form == Form::Tuple && n.variants[0].has_used());
    if all_skip {
        st.class("shape:all-underscore-fieldset");
    }
    if mixed {
        st.class("shape:mixed-used-and-underscore");
    }
    if tuple_struct {
        st.class("shape:tuple-struct");
    }
    let deep = adv.naming.term_types.iter().any(|t| t.depth() >= 2 && t.max_args() >= 2);
    if deep {
        st.class("payload:nested-generic");
    }
    if all_skip && mixed && both {
        st.nontrivial(&src);
        if st.want_sample() {
            st.sample(json!({"source": src}));
        }
    }
    Ok(())
}

pub fn c06_replay(ctx: &Ctx, case: &Value) -> Result<(), Failure> {
    match c06_judge(ctx, &case_text(case)?)? {
        Some(_) => Ok(()),
        None => Err(Failure::internal("not-accepted", "kiki does not accept this grammar".into(), case.clone())),
    }
}

pub const C06_RULE: &str = "accepted grammars with every combination of struct/enum, named/tuple/empty fieldset, used/`_` fields, terminal/nonterminal field symbols, adversarial names and payload types nested to depth 4 over a universe of crate and std types. Two oracles: (1) rustc type-checks a generated client outside the module that destructures every nonterminal type exhaustively in the declared shape (no `..`, no wildcard arm) with every binding ascribed its expected type (Box<X> / the payload type as rendered by the harness), constructs every struct/variant from parts, matches and constructs the terminal enum, and takes `parse` at the documented signature for Vec, a custom lazy iterator, a custom IntoIterator, iter::Empty, an array, Option and VecDeque; (2) the emitted type definitions are read as text and compared for names, declaration order of types / variants / fields, `pub`, and unit-like collapse. Non-trivial = grammar with an all-`_` fieldset, a mixed fieldset, and both a struct and an enum; distinct = the source text.";

pub fn c06_run(ctx: &Ctx) -> i32 {
    let mut rep = Report::new(ctx, C06_RULE);
    rep.assumptions = vec![
        "rustc 1.95 is the judge of type-checking; the emitted type region is read by the line-oriented reader in harness/src/emitted.rs".into(),
        "names that trigger a known C05 finding are excluded by construction".into(),
    ];
    regress_ctx(ctx, &mut rep, "C06", &|case| c06_replay(ctx, case));
    let mut c2 = ctx.clone();
    c2.shrink_iters = 64;
    let out = run_sharded(&c2, "C06", ctx.budget(1_000, 16_000), raw_hyg, |raw, st| c06_test(ctx, raw, st));
    rep.absorb("E2-rustc-typecheck+text", out);
    quota_check(&mut rep, &["shape:all-underscore-fieldset", "shape:mixed-used-and-underscore", "shape:tuple-struct", "payload:nested-generic"]);
    rep.finish()
}
