//! E3 — entry points of the cargo-fuzz targets. The oracle sits inside the
//! target: the bytes are decoded into a structured case, judged by the same
//! functions the proptest checks use, and a violation aborts the process (so
//! that libFuzzer stores the input). `VERIF_PROP` selects the assertion set.

use crate::cfg::Analysis;
use crate::engine::{self, Failure};
use crate::gen::{Bytes, RawGrammar};
use crate::outcome::{self, Outcome};
use crate::props::{common, frontend, lalr, misc, total};
use crate::{layout, refparse, reftok};
use std::sync::OnceLock;

fn prop() -> &'static str {
    static P: OnceLock<String> = OnceLock::new();
    P.get_or_init(|| {
        engine::install_quiet_panic_hook();
        std::env::var("VERIF_PROP").unwrap_or_default()
    })
}

fn report(r: Result<(), Failure>) {
    if let Err(f) = r {
        if f.internal {
            // harness-side problems must not look like findings; print and carry on
            if std::env::var("VERIF_FUZZ_STRICT").is_ok() {
                eprintln!("FUZZ-INTERNAL {}", f.signature());
                std::process::abort();
            }
            return;
        }
        eprintln!("FUZZ-VIOLATION kind={} {}", f.kind, f.detail.lines().next().unwrap_or(""));
        std::process::abort();
    }
}

/// Judges one text for property `p` ("" = every text-level property that applies).
pub fn judge_text(p: &str, text: &str, layout_bytes: &[u8]) -> Result<(), Failure> {
    let all = p.is_empty();
    if all || p == "C07" {
        total::c07_judge(text).map(|_| ())?;
    }
    if all || p == "C08" {
        frontend::c08_judge(text)?;
    }
    let lexes = reftok::tokenize(text);
    if let Ok(toks) = &lexes {
        if all || p == "C09" {
            frontend::c09_judge(text)?;
        }
        let parses = refparse::read_file(toks);
        if let Ok(file) = &parses {
            if all || p == "C10" {
                frontend::c10_judge(text).map(|_| ())?;
            }
            if all || p == "C12" {
                misc::c12_judge(text).map(|_| ())?;
            }
            if (all || p == "C13") && crate::spec::from_rfile(file).is_some() {
                misc::c13_judge(text).map(|_| ())?;
            }
            if all || p == "C15" {
                misc::c15_judge_source(text).map(|_| ())?;
            }
        }
    }
    if all || p == "C16" {
        // re-layout of the same token list, driven by the remaining bytes
        let atoms: Vec<crate::ast::Atom> = match &lexes {
            Ok(t) => t.iter().map(|x| crate::ast::Atom { kind: x.kind, text: x.text.clone() }).collect(),
            Err(_) => return Ok(()),
        };
        let choices: Vec<u16> = layout_bytes.iter().map(|b| (*b as u16) << 8 | *b as u16).collect();
        let choices = if choices.is_empty() { vec![0x4000, 0x9000, 0x1234] } else { choices };
        let other = layout::render(&atoms, &choices);
        frontend::c16_judge(text, &other.text).map(|_| ())?;
    }
    Ok(())
}

pub fn text_frontend(data: &[u8]) {
    let p = prop();
    // the last 8 bytes steer the second layout (C16); the rest is the text
    let (body, tail) = if data.len() > 8 { data.split_at(data.len() - 8) } else { (data, &[][..]) };
    let Ok(text) = std::str::from_utf8(body) else { return };
    report(judge_text(p, text, tail));
}

/// Structure-aware text target: the bytes are decoded into the raw value of the proptest text generators
/// (family, grammar, decorations, token edits, injected static violations, layouts), rendered, and judged
/// like any other text. Coverage guidance then works on the generator's decisions instead of on characters.
pub fn judge_raw(p: &str, data: &[u8]) -> Result<(), Failure> {
    let (body, tail) = if data.len() > 8 { data.split_at(data.len() - 8) } else { (data, &[][..]) };
    let mut b = Bytes::new(body);
    let families: &[u8] = match p {
        "C10" | "C12" | "C13" | "C15" => &[0],
        _ => &[0, 0, 0, 1, 2, 3, 4, 5, 6, 7],
    };
    let raw = total::RawAny::from_bytes(&mut b, families);
    let (text, _) = total::any_text(&raw);
    judge_text(p, &text, tail)
}

pub fn raw_struct(data: &[u8]) {
    report(judge_raw(prop(), data));
}

pub fn judge_grammar(p: &str, data: &[u8]) -> Result<(), Failure> {
    let mut b = Bytes::new(data);
    let raw = RawGrammar::from_bytes(&mut b);
    let g = common::grammar_case(&raw);
    let Ok(a) = Analysis::new(&g.cfg) else { return Ok(()) };
    let all = p.is_empty();
    let out = outcome::generate(&g.text);
    if all || p == "C04" || p == "C07" {
        if let Outcome::Panic(m) = &out {
            return Err(Failure::new("panic", format!("generate panicked: {m}"), common::text_case(&g.text)));
        }
    }
    if all || p == "C04" {
        lalr::c04_judge(&g, &a, &out)?;
    }
    match &out {
        Outcome::Ok(t) if a.lalr_ok() && (all || p == "C17" || p == "C01" || p == "C03") => lalr::c17_judge(&g, &a, t)?,
        Outcome::TableConflict(e) if !a.lalr_ok() && (all || p == "C11") => lalr::c11_judge(&g, &a, e)?,
        _ => {}
    }
    if all || p == "C14" {
        if let Outcome::Ok(_) | Outcome::TableConflict(_) = &out {
            total::c14_judge(&g.text, 1).map(|_| ())?;
        }
    }
    Ok(())
}

pub fn grammar_struct(data: &[u8]) {
    report(judge_grammar(prop(), data));
}

pub fn judge_header(data: &[u8]) -> Result<(), Failure> {
    let Ok(text) = std::str::from_utf8(data) else { return Ok(()) };
    misc::c15_judge_header(text)
}

pub fn hash_header(data: &[u8]) {
    let _ = prop();
    report(judge_header(data));
}

pub fn judge_oset(data: &[u8]) -> Result<(), Failure> {
    misc::c18_from_bytes(data)
}

pub fn oset_ops(data: &[u8]) {
    let _ = prop();
    report(judge_oset(data));
}

/// Used by the harness to turn a libFuzzer artifact into an ordinary failure / replay file.
pub fn judge_artifact(target: &str, p: &str, data: &[u8]) -> Result<(), Failure> {
    match target {
        "text_frontend" => {
            let (body, tail) = if data.len() > 8 { data.split_at(data.len() - 8) } else { (data, &[][..]) };
            match std::str::from_utf8(body) {
                Ok(t) => judge_text(p, t, tail),
                Err(_) => Ok(()),
            }
        }
        "grammar_struct" => judge_grammar(p, data),
        "raw_struct" => judge_raw(p, data),
        "hash_header" => judge_header(data),
        "oset_ops" => judge_oset(data),
        _ => Ok(()),
    }
}
