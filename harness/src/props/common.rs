//! Helpers shared by the property checks.

use crate::ast::*;
use crate::cfg::{self, Analysis, Cfg};
use crate::engine::{Failure, Stats};
use crate::gen::{self, RawGrammar, Source};
use crate::spec::{self, Naming, Spec};
use serde_json::{json, Value};

/// A generated grammar, rendered with conventional names in the plain layout.
pub struct GCase {
    pub spec: Spec,
    pub source: Source,
    pub cfg: Cfg,
    pub naming: Naming,
    pub text: String,
}

pub fn grammar_case(raw: &RawGrammar) -> GCase {
    let (spec, source) = gen::build(raw);
    from_spec(spec, source)
}

pub fn from_spec(spec: Spec, source: Source) -> GCase {
    let cfg = spec.cfg();
    let naming = Naming::conventional(&spec);
    let text = render_plain(&spec::to_rfile(&spec, &naming).atoms());
    GCase { spec, source, cfg, naming, text }
}

/// Case rebuilt from Kiki text (replay files store the text, not the raw value).
pub fn gcase_from_text(text: &str) -> Result<GCase, String> {
    let toks = crate::reftok::tokenize(text).map_err(|e| format!("replay text does not lex: {e:?}"))?;
    let file = crate::refparse::read_file(&toks).map_err(|_| "replay text does not parse".to_string())?;
    let (spec, naming) = spec::from_rfile(&file).ok_or("replay text is not a well-formed grammar")?;
    let cfg = spec.cfg();
    Ok(GCase { spec, source: Source::Random, cfg, naming, text: text.to_string() })
}

pub fn source_name(s: Source) -> &'static str {
    match s {
        Source::Random => "src:random",
        Source::SeedEdits => "src:seed+edits",
        Source::RandomRepair => "src:random+repair",
        Source::SeedEditsRepair => "src:seed+edits+repair",
    }
}

pub fn class_name(c: cfg::Class) -> &'static str {
    match c {
        cfg::Class::Slr => "class:SLR(1)",
        cfg::Class::LalrNotSlr => "class:LALR(1)-not-SLR(1)",
        cfg::Class::Lr1NotLalr => "class:LR(1)-not-LALR(1)",
        cfg::Class::NotLr1 => "class:not-LR(1)",
    }
}

/// Records the standard grammar classification counters.
pub fn classify(stats: &mut Stats, g: &GCase, a: &Analysis) -> cfg::Shape {
    stats.class(source_name(g.source));
    stats.class(class_name(a.class()));
    let sh = cfg::shape(&g.cfg, &a.sets);
    if sh.recursive {
        stats.class("shape:recursive");
    }
    if sh.left_recursive {
        stats.class("shape:left-recursive");
    }
    if sh.right_recursive {
        stats.class("shape:right-recursive");
    }
    if sh.nullable_nts > 0 {
        stats.class("shape:has-nullable-nonterminal");
    }
    if sh.eps_mid_rhs {
        stats.class("shape:nullable-in-middle-of-rhs");
    }
    if sh.unreachable > 0 {
        stats.class("shape:has-unreachable-nonterminal");
    }
    if sh.unproductive > 0 {
        stats.class("shape:has-unproductive-nonterminal");
    }
    if sh.variantless > 0 {
        stats.class("shape:has-variantless-enum");
    }
    if g.cfg.n_t == 0 {
        stats.class("shape:zero-terminals");
    }
    for (s, q, acts) in a.lalr_tables.conflicts().iter().take(50) {
        let _ = (s, q);
        let has_shift = acts.iter().any(|x| matches!(x, cfg::Act::Shift(_)));
        let reduces = acts.iter().filter(|x| matches!(x, cfg::Act::Reduce(_))).count();
        let has_accept = acts.iter().any(|x| matches!(x, cfg::Act::Accept));
        if has_shift && reduces > 0 {
            stats.class("conflict-cells:shift/reduce");
        }
        if reduces > 1 {
            stats.class("conflict-cells:reduce/reduce");
        }
        if has_accept && reduces > 0 {
            stats.class("conflict-cells:accept/reduce");
        }
    }
    let n = a.lalr.states.len();
    stats.class(match n {
        0..=5 => "lalr-states:<=5",
        6..=11 => "lalr-states:6-11",
        12..=29 => "lalr-states:12-29",
        30..=255 => "lalr-states:30-255",
        _ => "lalr-states:>=256",
    });
    // sizes beyond what random grammars reach (scaled families, large seeds)
    if g.cfg.n_t > 64 {
        stats.class("size:terminals>64");
    }
    if g.cfg.n_n > 64 {
        stats.class("size:nonterminals>64");
    }
    if g.cfg.rules.len() > 128 {
        stats.class("size:rules>128");
    }
    if g.cfg.rules.iter().any(|r| r.rhs.len() > 16) {
        stats.class("size:rule-longer-than-16");
    }
    if g.spec.nts.iter().any(|n| n.variants.len() > 16) {
        stats.class("size:enum-with>16-variants");
    }
    sh
}

/// Size classes of a source text (length thresholds: 8-bit lengths, 16-bit positions).
pub fn text_size_classes(text: &str, st: &mut Stats) {
    if text.len() > 65_536 {
        st.class("size:text-longer-than-64KiB");
    }
    if text.len() > 300 {
        let mut run = 0usize;
        let mut longest = 0usize;
        for b in text.bytes() {
            if b == b' ' || b == b'\n' || b == b'\t' || b == b'\r' {
                run = 0;
            } else {
                run += 1;
                longest = longest.max(run);
            }
        }
        if longest > 255 {
            st.class("size:unbroken-piece-longer-than-255-bytes");
        }
        if longest > 65_535 {
            st.class("size:unbroken-piece-longer-than-64KiB");
        }
        // bracket nesting (only attributes can nest deeply)
        let (mut depth, mut deepest) = (0i64, 0i64);
        for b in text.bytes() {
            match b {
                b'(' | b'[' | b'{' => {
                    depth += 1;
                    deepest = deepest.max(depth);
                }
                b')' | b']' | b'}' => depth = (depth - 1).max(0),
                b'\n' => depth = 0,
                _ => {}
            }
        }
        if deepest > 255 {
            st.class("size:brackets-nested-deeper-than-255");
        }
    }
}

pub fn text_case(text: &str) -> Value {
    json!({ "source": text })
}

pub fn case_text(case: &Value) -> Result<String, Failure> {
    case["source"]
        .as_str()
        .map(|s| s.to_string())
        .ok_or_else(|| Failure::internal("bad-replay", "replay case has no `source`".into(), case.clone()))
}

/// kiki's validated AST (carried by TableConflictErr) converted to the reference shape, names only.
pub fn kiki_file_to_rfile(f: &kiki::validated_file::File) -> RFile {
    use kiki::validated_file as vf;
    fn sym(s: &vf::IdentOrTerminalIdent) -> RSym {
        match s {
            vf::IdentOrTerminalIdent::Ident(i) => RSym::N(Id::new(&i.name)),
            vf::IdentOrTerminalIdent::Terminal(t) => RSym::T(Id::new(t.name.raw())),
        }
    }
    fn fs(f: &vf::Fieldset) -> RFieldset {
        match f {
            vf::Fieldset::Empty => RFieldset::Empty,
            vf::Fieldset::Named(n) => RFieldset::Named(
                n.fields
                    .iter()
                    .map(|f| {
                        (
                            match &f.name {
                                vf::IdentOrUnderscore::Ident(i) => Some(Id::new(&i.name)),
                                vf::IdentOrUnderscore::Underscore(_) => None,
                            },
                            sym(&f.symbol),
                        )
                    })
                    .collect(),
            ),
            vf::Fieldset::Tuple(t) => RFieldset::Tuple(
                t.fields
                    .iter()
                    .map(|f| match f {
                        vf::TupleField::Used(s) => (true, sym(s)),
                        vf::TupleField::Skipped(s) => (false, sym(s)),
                    })
                    .collect(),
            ),
        }
    }
    fn attrs(a: &[vf::Attribute]) -> Vec<RAttr> {
        a.iter().map(|x| RAttr { src: x.src.clone(), pos: NOPOS }).collect()
    }
    let mut items = vec![RItem::Start(Id::new(&f.start))];
    for n in &f.nonterminals {
        match n {
            vf::Nonterminal::Struct(s) => {
                items.push(RItem::Struct { attrs: attrs(&s.attributes), name: Id::new(&s.name.name), fs: fs(&s.fieldset) })
            }
            vf::Nonterminal::Enum(e) => items.push(RItem::Enum {
                attrs: attrs(&e.attributes),
                name: Id::new(&e.name.name),
                variants: e.variants.iter().map(|v| (Id::new(&v.name.name), fs(&v.fieldset))).collect(),
            }),
        }
    }
    // the validated terminal enum stores types as strings; keep them as one-segment pseudo paths
    items.push(RItem::Terminal {
        attrs: attrs(&f.terminal_enum.attributes),
        name: Id::new(&f.terminal_enum.name),
        variants: f
            .terminal_enum
            .variants
            .iter()
            .map(|v| (Id::new(v.dollarless_name.raw()), RType::Path(vec![Id::new(&v.type_)])))
            .collect(),
    });
    RFile { items }
}

/// The same normal form for a reference file: start first, nonterminals in order, terminal enum last,
/// types flattened to their conventional rendering.
pub fn normal_form(f: &RFile) -> RFile {
    let f = f.without_positions();
    let mut items = vec![];
    for it in &f.items {
        if let RItem::Start(_) = it {
            items.push(it.clone());
        }
    }
    for it in &f.items {
        if matches!(it, RItem::Struct { .. } | RItem::Enum { .. }) {
            items.push(it.clone());
        }
    }
    for it in &f.items {
        if let RItem::Terminal { attrs, name, variants } = it {
            items.push(RItem::Terminal {
                attrs: attrs.clone(),
                name: name.clone(),
                variants: variants.iter().map(|(n, t)| (n.clone(), RType::Path(vec![Id::new(&t.render())]))).collect(),
            });
        }
    }
    RFile { items }
}
