//! Front-end properties: C08 (tokenisation), C09 (syntax + parse errors),
//! C10 (static validation), C16 (layout independence).

use super::common::*;
use super::lalr::{quota_check, regress};
use crate::ast::*;
use crate::engine::*;
use crate::gen::{self, pick, RawGrammar};
use crate::layout::{self, Chooser, Rendered};
use crate::outcome::{self, Outcome};
use crate::refparse::{self, SynVerdict};
use crate::reftok::{self, RTok};
use crate::refvalidate::{self, Viol};
use crate::spec;
use crate::textgen::{self, DecorOpts};
use proptest::prelude::*;
use serde_json::{json, Value};

// ---------------------------------------------------------------------------
// Raw text cases

#[derive(Clone, Debug)]
pub struct RawText {
    /// 0 decorated valid file, 1 valid file + token edits, 2 token soup, 3 file with lexically bad atoms,
    /// 4 character soup, 5 char-mutated valid file, 6 char-mutated repository example
    pub family: u8,
    pub grammar: RawGrammar,
    pub decor: Vec<u16>,
    pub edits: Vec<(u8, u16, u16)>,
    pub soup: Vec<u16>,
    pub layout: Vec<u16>,
    pub layout2: Vec<u16>,
}

pub fn raw_text(families: &'static [u8]) -> impl Strategy<Value = RawText> {
    (
        0usize..families.len(),
        gen::raw_grammar(),
        textgen::choices(24),
        textgen::token_edits(3),
        textgen::choices(40),
        textgen::choices(24),
        textgen::choices(24),
    )
        .prop_map(move |(f, grammar, decor, edits, soup, layout, layout2)| RawText {
            family: families[f],
            grammar,
            decor,
            edits,
            soup,
            layout,
            layout2,
        })
}

impl RawText {
    /// Decoding from fuzzer bytes (E3 target `raw_struct`): the same value space as `raw_text`.
    pub fn from_bytes(b: &mut gen::Bytes, families: &[u8]) -> RawText {
        let family = families[b.u8() as usize % families.len()];
        let decor = b.choices(24);
        let ne = b.len(3);
        let edits = (0..ne).map(|_| (b.u8() % 6, b.u16_full(), b.u16_full())).collect();
        let soup = b.choices(40);
        let layout = b.choices(24);
        let layout2 = b.choices(24);
        let grammar = RawGrammar::from_bytes(b);
        RawText { family, grammar, decor, edits, soup, layout, layout2 }
    }
}

pub const BAD_ATOMS: [&str; 16] =
    ["$", "/", "#", "é", "$start", "$_", "@", "$enum", "€x", "\"", "#[a)]", "#[(])", "$9", "[", "!", "$struct"];

/// Atoms whose lexical failure does not depend on what follows them (usable for layout comparisons).
fn bad_atom(ch: &mut Chooser) -> Atom {
    Atom { kind: TokKind::Ident, text: BAD_ATOMS[ch.pick(BAD_ATOMS.len())].to_string() }
}

pub struct TextCase {
    pub family: u8,
    /// token list the text was rendered from (None for character-level families)
    pub atoms: Option<Vec<Atom>>,
    pub file: Option<RFile>,
}

fn repo_examples() -> &'static Vec<String> {
    static EX: std::sync::OnceLock<Vec<String>> = std::sync::OnceLock::new();
    EX.get_or_init(|| gen::seeds().iter().map(|s| s.src.clone()).collect())
}

pub fn decorated_file(raw: &RawText, opts: DecorOpts) -> (spec::Spec, spec::Naming, RFile) {
    let (sp, _) = gen::build(&raw.grammar);
    let mut ch = Chooser::new(&raw.decor);
    let nm = textgen::decorate(&sp, &mut ch, opts);
    let file = spec::to_rfile(&sp, &nm);
    (sp, nm, file)
}

const FULL_DECOR: DecorOpts = DecorOpts { attrs: true, types: true, pool_names: true, max_type_depth: 4 };

/// Token list (or raw text) of a case, before layout.
pub fn build_atoms(raw: &RawText) -> (TextCase, Option<String>) {
    let mut ch = Chooser::new(&raw.soup);
    match raw.family {
        0 => {
            let (_, _, file) = decorated_file(raw, FULL_DECOR);
            (TextCase { family: 0, atoms: Some(file.atoms()), file: Some(file) }, None)
        }
        1 => {
            let (_, _, file) = decorated_file(raw, FULL_DECOR);
            let mut atoms = file.atoms();
            let edits = if raw.edits.is_empty() { vec![(0u8, 0u16, 0u16)] } else { raw.edits.clone() };
            textgen::edit_atoms(&mut atoms, &edits, &mut ch);
            (TextCase { family: 1, atoms: Some(atoms), file: None }, None)
        }
        2 => {
            let n = raw.soup.len().min(40);
            let atoms: Vec<Atom> = (0..n).map(|_| textgen::soup_atom(&mut ch)).collect();
            (TextCase { family: 2, atoms: Some(atoms), file: None }, None)
        }
        3 => {
            let (_, _, file) = decorated_file(raw, FULL_DECOR);
            let mut atoms = file.atoms();
            let k = 1 + ch.pick(2);
            for _ in 0..k {
                let at = ch.pick(atoms.len() + 1);
                atoms.insert(at, bad_atom(&mut ch));
            }
            (TextCase { family: 3, atoms: Some(atoms), file: None }, None)
        }
        7 => {
            let (_, _, file) = decorated_file(raw, FULL_DECOR);
            let mut atoms = file.atoms();
            let at = ch.pick(atoms.len() + 1);
            let bad = layout::gen_bad_attr(&mut ch);
            atoms.insert(at, Atom { kind: TokKind::Ident, text: bad });
            (TextCase { family: 7, atoms: Some(atoms), file: None }, None)
        }
        4 => (TextCase { family: 4, atoms: None, file: None }, Some(textgen::char_soup(&raw.soup))),
        5 => {
            let (_, _, file) = decorated_file(raw, FULL_DECOR);
            let text = layout::render(&file.atoms(), &raw.layout).text;
            let muts = if raw.edits.is_empty() { vec![(1u8, 0x8000u16, 0u16)] } else { raw.edits.clone() };
            (TextCase { family: 5, atoms: None, file: None }, Some(textgen::mutate_chars(&text, &muts)))
        }
        _ => {
            let ex = repo_examples();
            let text = &ex[pick(raw.grammar.seed_ix, ex.len())];
            let muts = if raw.edits.is_empty() { vec![(1u8, 0x8000u16, 0u16)] } else { raw.edits.clone() };
            (TextCase { family: 6, atoms: None, file: None }, Some(textgen::mutate_chars(text, &muts)))
        }
    }
}

pub fn build_text(raw: &RawText) -> (TextCase, String, Option<Rendered>) {
    let (tc, text) = build_atoms(raw);
    match text {
        Some(t) => (tc, t, None),
        None => {
            let r = layout::render(tc.atoms.as_ref().unwrap(), &raw.layout);
            let t = r.text.clone();
            (tc, t, Some(r))
        }
    }
}

pub fn family_name(f: u8) -> &'static str {
    match f {
        0 => "family:valid-decorated-file",
        1 => "family:valid-file+token-edits",
        2 => "family:token-soup",
        3 => "family:file+lexically-bad-atoms",
        4 => "family:character-soup",
        5 => "family:char-mutated-generated-file",
        7 => "family:file+malformed-attribute",
        _ => "family:char-mutated-repository-example",
    }
}

// ---------------------------------------------------------------------------
// C08

fn kiki_token_view(t: &kiki::data::cst::Token) -> (TokKind, usize, String) {
    use kiki::data::cst::Token as T;
    match t {
        T::Underscore(p) => (TokKind::Underscore, p.0, "_".into()),
        T::Ident(i) => (TokKind::Ident, i.position.0, i.name.clone()),
        T::TerminalIdent(i) => (TokKind::TerminalIdent, i.dollarless_position.0.wrapping_sub(1), format!("${}", i.name.raw())),
        T::OuterAttribute(a) => (TokKind::OuterAttribute, a.position.0, a.src.clone()),
        T::StartKw(p) => (TokKind::StartKw, p.0, "start".into()),
        T::StructKw(p) => (TokKind::StructKw, p.0, "struct".into()),
        T::EnumKw(p) => (TokKind::EnumKw, p.0, "enum".into()),
        T::TerminalKw(p) => (TokKind::TerminalKw, p.0, "terminal".into()),
        T::Colon(p) => (TokKind::Colon, p.0, ":".into()),
        T::DoubleColon(p) => (TokKind::DoubleColon, p.0, "::".into()),
        T::Comma(p) => (TokKind::Comma, p.0, ",".into()),
        T::LParen(p) => (TokKind::LParen, p.0, "(".into()),
        T::RParen(p) => (TokKind::RParen, p.0, ")".into()),
        T::LCurly(p) => (TokKind::LCurly, p.0, "{".into()),
        T::RCurly(p) => (TokKind::RCurly, p.0, "}".into()),
        T::LAngle(p) => (TokKind::LAngle, p.0, "<".into()),
        T::RAngle(p) => (TokKind::RAngle, p.0, ">".into()),
    }
}

fn hook_tokenize(text: &str) -> Result<Result<Vec<kiki::data::cst::Token>, Outcome>, String> {
    note_current_input(Some(text));
    let r = catch(|| kiki::verif_hooks::tokenize(text)).map(|r| r.map_err(|e| Outcome::from_result(Err(e))));
    note_current_input(None);
    r
}

pub fn c08_judge(text: &str) -> Result<(), Failure> {
    let case = text_case(text);
    let fail = |kind: &str, d: String| Err(Failure::new(kind, d, case.clone()));
    let reference = reftok::tokenize(text);
    // (1) the token vector itself
    match (&reference, hook_tokenize(text)) {
        (_, Err(p)) => return fail("tokenizer-panic", format!("tokenize panicked: {p}")),
        (Ok(rt), Ok(Ok(kt))) => {
            let kv: Vec<(TokKind, usize, String)> = kt.iter().map(kiki_token_view).collect();
            let rv: Vec<(TokKind, usize, String)> = rt.iter().map(|t| (t.kind, t.start, t.text.clone())).collect();
            if kv != rv {
                let i = kv.iter().zip(&rv).position(|(a, b)| a != b).unwrap_or(kv.len().min(rv.len()));
                return fail(
                    "token-mismatch",
                    format!("token #{i}: kiki {:?}, documented rules give {:?} (kiki {} tokens, reference {})", kv.get(i), rv.get(i), kv.len(), rv.len()),
                );
            }
        }
        (Ok(_), Ok(Err(e))) => return fail("rejects-lexically-valid", format!("kiki reports {e:?} for a text that is lexically valid per the documented rules")),
        (Err(f), Ok(Ok(kt))) => {
            return fail(
                "accepts-lexically-invalid",
                format!("kiki tokenises ({} tokens) a text with a lexical error ({}; admissible reports {:?})", kt.len(), f.what, f.admissible),
            )
        }
        (Err(f), Ok(Err(Outcome::Lex(i, c)))) => {
            if !f.admissible.contains(&(i, c)) {
                return fail("wrong-lex-error", format!("kiki reports Lex({i}, {c:?}); {}: admissible reports {:?}", f.what, f.admissible));
            }
        }
        (Err(_), Ok(Err(o))) => return fail("wrong-lex-error", format!("tokenize returned a non-lexical error {o:?}")),
    }
    // (2) through the public API only
    match (&reference, outcome::generate(text)) {
        // a panic behind the tokenizer is not a tokenisation matter (C07 decides it); the tokenizer itself was observed above
        (Ok(_), Outcome::Panic(_)) => Ok(()),
        (Err(f), Outcome::Panic(p)) => fail("generate-panic", format!("generate panicked ({p}) on a text with a lexical error; admissible reports {:?}", f.admissible)),
        (Ok(_), Outcome::Lex(i, c)) => fail("rejects-lexically-valid", format!("generate reports Lex({i}, {c:?}) for a lexically valid text")),
        (Err(f), Outcome::Lex(i, c)) => {
            if f.admissible.contains(&(i, c)) {
                Ok(())
            } else {
                fail("wrong-lex-error", format!("generate reports Lex({i}, {c:?}); {}: admissible reports {:?}", f.what, f.admissible))
            }
        }
        (Err(f), o) => fail("accepts-lexically-invalid", format!("generate returns {} for a text with a lexical error ({}; admissible {:?})", o.brief(), f.what, f.admissible)),
        (Ok(rt), Outcome::Parse(s, txt, e)) => {
            // token boundaries as revealed by parse error spans
            let hit = rt.iter().any(|t| t.start == s && t.end == e && t.text == txt) || (s == text.len() && e == text.len() && txt.is_empty());
            if hit {
                Ok(())
            } else {
                fail("parse-span-not-a-token", format!("Parse({s}, {txt:?}, {e}) is not the span of any token of the text"))
            }
        }
        (Ok(_), _) => Ok(()),
    }
}

fn c08_nontrivial(text: &str, reference: &Result<Vec<RTok>, reftok::LexFail>) -> bool {
    let ntok = match reference {
        Ok(t) => t.len(),
        Err(f) => f.tokens_before.len(),
    };
    let multibyte = !text.is_ascii();
    let attr = text.contains("#[");
    let munch = text.contains(":::") || text.contains("$_") || text.contains("starts") || text.contains("_x");
    let late_error = matches!(reference, Err(f) if f.admissible.iter().all(|(i, _)| *i > 0));
    ntok >= 3 && (multibyte || attr || munch || late_error)
}

const C08_FAMILIES: &[u8] = &[0, 1, 2, 3, 3, 4, 4, 5, 6, 7];

fn c08_test(raw: &RawText, st: &mut Stats) -> Result<(), Failure> {
    let (tc, text, _) = build_text(raw);
    st.class(family_name(tc.family));
    text_size_classes(&text, st);
    let reference = reftok::tokenize(&text);
    match &reference {
        Ok(_) => st.class("ref:lexically-valid"),
        Err(f) => st.class(&format!("ref:lex-error:{}", f.what)),
    }
    if !text.is_ascii() {
        st.class("text:has-multibyte");
    }
    if c08_nontrivial(&text, &reference) {
        st.nontrivial(&text);
        if st.want_sample() && tc.family >= 3 {
            st.sample(json!({"text": text, "family": family_name(tc.family), "reference": match &reference { Ok(t) => format!("{} tokens", t.len()), Err(f) => format!("{} admissible {:?}", f.what, f.admissible)}}));
        }
    }
    c08_judge(&text)
}

pub fn c08_replay(case: &Value) -> Result<(), Failure> {
    c08_judge(&case_text(case)?)
}

pub const C08_RULE: &str = "texts from 7 families (decorated valid files, files with token edits, token soup, files with lexically bad atoms, character soup over a lexically loaded alphabet, character-mutated generated files, character-mutated repository examples), rendered under random layouts (Unicode whitespace, CRLF, comments with arbitrary content, adjacency); oracle: reference tokenizer written from the documented rules — full token vector (kind, byte position, text) via the tokenize hook, and Lex error admissibility / absence via generate alone. Non-trivial = >= 3 tokens and (multi-byte character, attribute, maximal-munch site, or a lexical error not at byte 0); distinct = the text.";

pub fn c08_run(ctx: &Ctx) -> i32 {
    let mut rep = Report::new(ctx, C08_RULE);
    rep.assumptions = vec![
        "for a malformed attribute the documentation does not say which character is 'first offending': the first mismatching closer, the newline reached while still open, and (len, None) at end of input are all accepted, but the index must be an absolute byte offset".into(),
    ];
    regress(ctx, &mut rep, "C08", c08_replay);
    let cases = ctx.budget(400_000, 6_000_000);
    let out = run_sharded(ctx, "C08", cases, || raw_text(C08_FAMILIES), c08_test);
    rep.absorb("E1-proptest", out);
    if ctx.tier == Tier::Thorough {
        crate::fuzzrun::run_into(ctx, &mut rep, crate::fuzzrun::Campaign { target: "text_frontend", prop: "C08", runs_total: (ctx.scale * 20_000_000.0) as u64, max_len: 2048, seeds: crate::fuzzrun::text_seeds(), dict: true });
        crate::fuzzrun::run_into(ctx, &mut rep, crate::fuzzrun::raw_campaign("C08", (ctx.scale * 500_000.0) as u64));
    }
    quota_check(&mut rep, &["ref:lexically-valid", "ref:lex-error:malformed attribute", "ref:lex-error:reserved word after dollar", "ref:lex-error:unknown character", "text:has-multibyte"]);
    rep.finish()
}

// ---------------------------------------------------------------------------
// C09

pub fn c09_judge(text: &str) -> Result<(), Failure> {
    let case = text_case(text);
    let fail = |kind: &str, d: String| Err(Failure::new(kind, d, case.clone()));
    let Ok(toks) = reftok::tokenize(text) else {
        return Err(Failure::internal("not-lexically-valid", "C09 case is not lexically valid (C08 judges those)".into(), case));
    };
    let kinds: Vec<TokKind> = toks.iter().map(|t| t.kind).collect();
    let verdict = refparse::syntax_verdict(&kinds);
    let rd = refparse::read_file(&toks);
    if rd.is_ok() != (verdict == SynVerdict::Accept) {
        return Err(Failure::internal("oracle-inconsistency", format!("Earley says {verdict:?}, recursive-descent reader says ok={}", rd.is_ok()), case));
    }
    let out = outcome::generate(text);
    let expected_err = match &verdict {
        SynVerdict::Accept => None,
        SynVerdict::BadToken(i) => Some((toks[*i].start, toks[*i].text.clone(), toks[*i].end)),
        SynVerdict::UnexpectedEof => Some((text.len(), String::new(), text.len())),
    };
    match (&expected_err, &out) {
        // a panic behind the parser is not a syntax matter (C07/C10 decide it)
        (None, Outcome::Panic(_)) => {}
        (Some(want), Outcome::Panic(p)) => return fail("generate-panic", format!("generate panicked ({p}); expected Parse{want:?}")),
        (_, Outcome::Lex(i, c)) => return fail("lex-error-on-valid-tokens", format!("Lex({i}, {c:?}) on a lexically valid text")),
        (None, Outcome::Parse(s, t, e)) => return fail("rejects-sentence", format!("Parse({s}, {t:?}, {e}) for a sentence of the Kiki grammar ({} tokens)", toks.len())),
        (None, _) => {}
        (Some(want), Outcome::Parse(s, t, e)) => {
            if (*s, t.clone(), *e) != *want {
                return fail("wrong-parse-error", format!("Parse({s}, {t:?}, {e}); the first token that cannot continue a valid file is {want:?} ({verdict:?})"));
            }
        }
        (Some(want), o) => return fail("accepts-non-sentence", format!("{} for a token list that is not a sentence of the Kiki grammar; expected Parse{want:?} ({verdict:?})", o.brief())),
    }
    // the parser driven directly (public kiki::data::cst::parse)
    if let Ok(Ok(kt)) = hook_tokenize(text) {
        if kt.len() == toks.len() {
            note_current_input(Some(text));
            let direct = catch(|| kiki::data::cst::parse(kt.clone()));
            note_current_input(None);
            match direct {
                Err(p) => return fail("parser-panic", format!("cst::parse panicked: {p}")),
                Ok(Ok(_)) => {
                    if verdict != SynVerdict::Accept {
                        return fail("accepts-non-sentence", format!("cst::parse returned Ok; {verdict:?}"));
                    }
                }
                Ok(Err(None)) => {
                    if verdict != SynVerdict::UnexpectedEof {
                        return fail("wrong-parse-error", format!("cst::parse returned Err(None); {verdict:?}"));
                    }
                }
                Ok(Err(Some(tok))) => match verdict {
                    SynVerdict::BadToken(i) if kt[i] == tok => {}
                    _ => return fail("wrong-parse-error", format!("cst::parse returned Err(Some({tok:?})); {verdict:?}")),
                },
            }
        }
    }
    Ok(())
}

const C09_FAMILIES: &[u8] = &[0, 1, 1, 1, 2];

fn c09_test(raw: &RawText, st: &mut Stats) -> Result<(), Failure> {
    let (tc, text, _) = build_text(raw);
    let Ok(toks) = reftok::tokenize(&text) else {
        st.discard("not lexically valid");
        return Ok(());
    };
    // generator self-check: the rendering gives back the intended token list
    if let Some(atoms) = &tc.atoms {
        let same = atoms.len() == toks.len() && atoms.iter().zip(&toks).all(|(a, t)| a.kind == t.kind && a.text == t.text);
        if !same {
            return Err(Failure::internal("generator-self-check", "rendered text does not re-tokenise to the intended token list".into(), text_case(&text)));
        }
    }
    st.class(family_name(tc.family));
    text_size_classes(&text, st);
    let kinds: Vec<TokKind> = toks.iter().map(|t| t.kind).collect();
    let verdict = refparse::syntax_verdict(&kinds);
    match &verdict {
        SynVerdict::Accept => {
            st.class("ref:accept");
            let rich = text.contains('<') || text.contains("#[");
            if toks.len() >= 25 && rich {
                st.nontrivial(&kinds);
            }
        }
        SynVerdict::BadToken(i) => {
            st.class("ref:bad-token");
            if *i >= 2 {
                st.nontrivial(&(kinds.clone(), *i));
                if st.want_sample() {
                    st.sample(json!({"text": text, "first_bad_token_index": i, "token": toks[*i].text}));
                }
            }
        }
        SynVerdict::UnexpectedEof => {
            st.class("ref:unexpected-eof");
            if toks.len() >= 2 {
                st.nontrivial(&(kinds.clone(), usize::MAX));
            }
        }
    }
    c09_judge(&text)
}

pub fn c09_replay(case: &Value) -> Result<(), Failure> {
    c09_judge(&case_text(case)?)
}

/// Every proper prefix of the repository's example files and of a few generated files (exhaustive truncation).
fn c09_truncations(ctx: &Ctx, rep: &mut Report) {
    let mut st = Stats::default();
    let mut fails = vec![];
    for seed in gen::seeds() {
        let Ok(toks) = reftok::tokenize(&seed.src) else { continue };
        let limit = toks.len().min(ctx.tier.pick(120, 2000));
        for k in 0..=limit {
            let end = if k == 0 { 0 } else { toks[k - 1].end };
            let text = &seed.src[..end];
            st.evaluations += 1;
            st.class("family:prefix-of-seed-file");
            st.nontrivial(&(seed.name.clone(), k));
            if let Err(f) = c09_judge(text) {
                fails.push(f);
                break;
            }
        }
    }
    rep.absorb("prefix-enumeration", RunOutcome { stats: st, failures: fails });
}

pub const C09_RULE: &str = "token lists: decorated valid files (attributes on every declaration kind, the three fieldset forms, unit/path/generic types), 1..3 token-level edits of them (delete/insert/replace/swap/duplicate/truncate), token soup, and every token-prefix of the seed files; rendered under random layouts. Oracle: Earley recogniser over the published Kiki grammar (accept / first token whose prefix is not viable / viable proper prefix) compared with generate's Parse(start, text, end) and with kiki::data::cst::parse driven directly. Non-trivial = rejected with error index >= 2, or viable proper prefix of >= 2 tokens, or accepted with >= 25 tokens incl. a generic type or attribute; distinct = token-kind sequence (+ error index).";

pub fn c09_run(ctx: &Ctx) -> i32 {
    let mut rep = Report::new(ctx, C09_RULE);
    rep.assumptions = vec!["the published grammar is the one in parser.kiki / USER_GUIDE.md, transcribed as data; every nonterminal is productive (asserted), so the Earley dead-set index is the first token that cannot continue any valid file".into()];
    regress(ctx, &mut rep, "C09", c09_replay);
    c09_truncations(ctx, &mut rep);
    let cases = ctx.budget(250_000, 4_000_000);
    let out = run_sharded(ctx, "C09", cases, || raw_text(C09_FAMILIES), c09_test);
    rep.absorb("E1-proptest", out);
    if ctx.tier == Tier::Thorough {
        crate::fuzzrun::run_into(ctx, &mut rep, crate::fuzzrun::Campaign { target: "text_frontend", prop: "C09", runs_total: (ctx.scale * 20_000_000.0) as u64, max_len: 2048, seeds: crate::fuzzrun::text_seeds(), dict: true });
        crate::fuzzrun::run_into(ctx, &mut rep, crate::fuzzrun::raw_campaign("C09", (ctx.scale * 500_000.0) as u64));
    }
    quota_check(&mut rep, &["ref:accept", "ref:bad-token", "ref:unexpected-eof"]);
    rep.finish()
}

// ---------------------------------------------------------------------------
// C10

#[derive(Clone, Debug)]
pub struct RawC10 {
    pub text: RawText,
    pub injections: Vec<(u8, u16, u16)>,
    pub collapse: bool,
}

fn raw_c10() -> impl Strategy<Value = RawC10> {
    (raw_text(&[0]), proptest::collection::vec((0u8..16, any::<u16>(), any::<u16>()), 0..=4), prop::bool::weighted(0.15))
        .prop_map(|(text, injections, collapse)| RawC10 { text, injections, collapse })
}

fn all_syms_mut(file: &mut RFile) -> Vec<&mut RSym> {
    let mut v = vec![];
    for it in file.items.iter_mut() {
        let fss: Vec<&mut RFieldset> = match it {
            RItem::Struct { fs, .. } => vec![fs],
            RItem::Enum { variants, .. } => variants.iter_mut().map(|(_, f)| f).collect(),
            _ => vec![],
        };
        for fs in fss {
            match fs {
                RFieldset::Empty => {}
                RFieldset::Named(f) => v.extend(f.iter_mut().map(|(_, s)| s)),
                RFieldset::Tuple(f) => v.extend(f.iter_mut().map(|(_, s)| s)),
            }
        }
    }
    v
}

fn top_names(file: &RFile) -> Vec<String> {
    let mut v = vec![];
    for it in &file.items {
        match it {
            RItem::Struct { name, .. } | RItem::Enum { name, .. } => v.push(name.name.clone()),
            RItem::Terminal { name, variants, .. } => {
                v.push(name.name.clone());
                v.extend(variants.iter().map(|(n, _)| n.name.clone()));
            }
            _ => {}
        }
    }
    v
}

fn lower_variant_of(name: &str) -> String {
    // first ASCII letter made lower case; letter-less names get a lower-case letter appended
    let mut out = String::new();
    let mut done = false;
    for c in name.chars() {
        if !done && c.is_ascii_alphabetic() {
            out.push(c.to_ascii_lowercase());
            done = true;
        } else {
            out.push(c);
        }
    }
    if !done {
        out.push('q');
    }
    out
}

fn upper_variant_of(name: &str) -> String {
    let mut out = String::new();
    let mut done = false;
    for c in name.chars() {
        if !done && c.is_ascii_alphabetic() {
            out.push(c.to_ascii_uppercase());
            done = true;
        } else {
            out.push(c);
        }
    }
    if !done {
        out.push('Q');
    }
    out
}

pub fn inject(file: &mut RFile, inj: (u8, u16, u16)) {
    let (kind, a, b) = inj;
    let n_items = file.items.len();
    match kind {
        0 => {
            // second start item (same or another name)
            let names = top_names(file);
            let name = if names.is_empty() || b & 1 == 0 { "Undefined9".to_string() } else { names[pick(a, names.len())].clone() };
            let at = pick(b, n_items + 1);
            file.items.insert(at, RItem::Start(Id::new(&name)));
        }
        1 => file.items.retain(|i| !matches!(i, RItem::Start(_))),
        2 => {
            // second terminal item
            if let Some(t) = file.items.iter().find(|i| matches!(i, RItem::Terminal { .. })).cloned() {
                let mut t = t;
                if let RItem::Terminal { name, variants, .. } = &mut t {
                    if b & 1 == 0 {
                        name.name.push_str("_2");
                        for (v, _) in variants.iter_mut() {
                            v.name.push_str("_2");
                        }
                    }
                }
                let at = pick(a, n_items + 1);
                file.items.insert(at, t);
            }
        }
        3 => file.items.retain(|i| !matches!(i, RItem::Terminal { .. })),
        4 => {
            // start names a terminal / the terminal enum / nothing
            let mut tnames = vec!["Nowhere".to_string()];
            for it in &file.items {
                if let RItem::Terminal { name, variants, .. } = it {
                    tnames.push(name.name.clone());
                    tnames.extend(variants.iter().map(|(n, _)| n.name.clone()));
                }
            }
            let pickd = tnames[pick(a, tnames.len())].clone();
            for it in file.items.iter_mut() {
                if let RItem::Start(id) = it {
                    id.name = pickd.clone();
                }
            }
        }
        5 => {
            let mut syms = all_syms_mut(file);
            if !syms.is_empty() {
                let k = pick(a, syms.len());
                *syms[k] = RSym::N(Id::new(["Ghost", "_7", "Undefined9"][pick(b, 3)]));
            }
        }
        6 => {
            let mut syms = all_syms_mut(file);
            if !syms.is_empty() {
                let k = pick(a, syms.len());
                *syms[k] = RSym::T(Id::new(["Ghost", "_7", "Undefined9"][pick(b, 3)]));
            }
        }
        7 => {
            // cross-namespace reference: `X` <-> `$X`
            let mut syms = all_syms_mut(file);
            if !syms.is_empty() {
                let k = pick(a, syms.len());
                let new = match &*syms[k] {
                    RSym::N(i) => RSym::T(Id::new(&i.name)),
                    RSym::T(i) => RSym::N(Id::new(&i.name)),
                };
                *syms[k] = new;
            }
        }
        8 | 9 | 10 => {
            // rename a top-level definition so that it clashes with another one
            let names = top_names(file);
            if names.len() >= 2 {
                let target = names[pick(b, names.len())].clone();
                let mut defs: Vec<&mut Id> = vec![];
                for it in file.items.iter_mut() {
                    match it {
                        RItem::Struct { name, .. } | RItem::Enum { name, .. } => {
                            if kind == 8 {
                                defs.push(name)
                            }
                        }
                        RItem::Terminal { name, variants, .. } => {
                            if kind == 10 {
                                defs.push(name);
                            }
                            if kind == 9 {
                                defs.extend(variants.iter_mut().map(|(n, _)| n));
                            }
                        }
                        _ => {}
                    }
                }
                if !defs.is_empty() {
                    let k = pick(a, defs.len());
                    defs[k].name = target;
                }
            }
        }
        11 => {
            // duplicate variant name inside one enum
            let mut enums: Vec<&mut Vec<(Id, RFieldset)>> = vec![];
            for it in file.items.iter_mut() {
                if let RItem::Enum { variants, .. } = it {
                    if variants.len() >= 2 {
                        enums.push(variants);
                    }
                }
            }
            if !enums.is_empty() {
                let e = pick(a, enums.len());
                let vs = &mut enums[e];
                let i = pick(b, vs.len());
                let j = (i + 1) % vs.len();
                let name = vs[j].0.name.clone();
                vs[i].0.name = name;
            }
        }
        12 => {
            // duplicate symbol sequence (new name; form and `_` mask may differ)
            let mut enums: Vec<&mut Vec<(Id, RFieldset)>> = vec![];
            for it in file.items.iter_mut() {
                if let RItem::Enum { variants, .. } = it {
                    if !variants.is_empty() {
                        enums.push(variants);
                    }
                }
            }
            if !enums.is_empty() {
                let e = pick(a, enums.len());
                let vs = &mut enums[e];
                let i = pick(b, vs.len());
                let mut copy = vs[i].clone();
                copy.0.name = format!("Dup{}", vs.len());
                copy.1 = match copy.1 {
                    RFieldset::Empty => RFieldset::Empty,
                    RFieldset::Named(f) => RFieldset::Tuple(f.into_iter().enumerate().map(|(k, (_, s))| (k % 2 == (b as usize & 1), s)).collect()),
                    RFieldset::Tuple(f) => {
                        RFieldset::Named(f.into_iter().enumerate().map(|(k, (u, s))| (if u { Some(Id::new(&format!("g{k}"))) } else { None }, s)).collect())
                    }
                };
                let at = pick(b.rotate_left(3), vs.len() + 1);
                vs.insert(at, copy);
            }
        }
        13 => {
            // lower-case first letter on a name that must be upper case
            let mut ids: Vec<&mut Id> = vec![];
            for it in file.items.iter_mut() {
                match it {
                    RItem::Struct { name, .. } => ids.push(name),
                    RItem::Enum { name, variants, .. } => {
                        ids.push(name);
                        ids.extend(variants.iter_mut().map(|(n, _)| n));
                    }
                    RItem::Terminal { name, variants, .. } => {
                        ids.push(name);
                        ids.extend(variants.iter_mut().map(|(n, _)| n));
                    }
                    _ => {}
                }
            }
            if !ids.is_empty() {
                let k = pick(a, ids.len());
                ids[k].name = lower_variant_of(&ids[k].name);
            }
        }
        14 => {
            // upper-case first letter on a field name
            let mut ids: Vec<&mut Id> = vec![];
            for it in file.items.iter_mut() {
                let fss: Vec<&mut RFieldset> = match it {
                    RItem::Struct { fs, .. } => vec![fs],
                    RItem::Enum { variants, .. } => variants.iter_mut().map(|(_, f)| f).collect(),
                    _ => vec![],
                };
                for fs in fss {
                    if let RFieldset::Named(f) = fs {
                        ids.extend(f.iter_mut().filter_map(|(n, _)| n.as_mut()));
                    }
                }
            }
            if !ids.is_empty() {
                let k = pick(a, ids.len());
                ids[k].name = upper_variant_of(&ids[k].name);
            }
        }
        _ => {
            // move the start item elsewhere / reorder two items (no violation by itself)
            if n_items >= 2 {
                let i = pick(a, n_items);
                let j = pick(b, n_items);
                file.items.swap(i, j);
            }
        }
    }
}

/// Maps every name into a 3-name pool (clashes and cross-namespace references arise by themselves).
pub fn collapse_names(file: &mut RFile, ch: &mut Chooser) {
    const UP: [&str; 3] = ["A", "B", "C"];
    const LO: [&str; 2] = ["a", "b"];
    let mut up = |id: &mut Id| id.name = UP[ch.pick(3)].to_string();
    for it in file.items.iter_mut() {
        match it {
            RItem::Start(id) => up(id),
            RItem::Struct { name, .. } | RItem::Enum { name, .. } => up(name),
            RItem::Terminal { name, variants, .. } => {
                up(name);
                for (v, _) in variants.iter_mut() {
                    up(v);
                }
            }
        }
    }
    for s in all_syms_mut(file) {
        match s {
            RSym::N(i) | RSym::T(i) => up(i),
        }
    }
    // variant names too: enums with several duplicated names arise by themselves
    for it in file.items.iter_mut() {
        if let RItem::Enum { variants, .. } = it {
            for (vn, _) in variants.iter_mut() {
                up(vn);
            }
        }
    }
    let mut k = 0;
    for it in file.items.iter_mut() {
        let fss: Vec<&mut RFieldset> = match it {
            RItem::Struct { fs, .. } => vec![fs],
            RItem::Enum { variants, .. } => variants.iter_mut().map(|(_, f)| f).collect(),
            _ => vec![],
        };
        for fs in fss {
            if let RFieldset::Named(f) = fs {
                for (n, _) in f.iter_mut() {
                    if let Some(id) = n {
                        id.name = LO[k % 2].to_string();
                        k += 1;
                    }
                }
            }
        }
    }
}

pub fn c10_judge(text: &str) -> Result<(Vec<Viol>, Outcome), Failure> {
    let case = text_case(text);
    let fail = |kind: &str, d: String| Err(Failure::new(kind, d, case.clone()));
    let toks = reftok::tokenize(text).map_err(|_| Failure::internal("not-lexically-valid", "C10 case does not lex".into(), case.clone()))?;
    let file = refparse::read_file(&toks).map_err(|_| Failure::internal("not-syntactically-valid", "C10 case does not parse".into(), case.clone()))?;
    let viols = refvalidate::violations(&file);
    let out = outcome::generate(text);
    match &out {
        Outcome::Panic(p) => {
            // with no violation present a panic is not a validation matter (C07 decides it)
            if !viols.is_empty() {
                return fail("violation-not-enforced", format!("generate panicked ({p}) instead of reporting one of the violations present: {viols:?}"));
            }
        }
        Outcome::Lex(..) | Outcome::Parse(..) => return fail("frontend-error-on-valid-syntax", format!("{} on a syntactically valid file", out.brief())),
        Outcome::Ok(_) | Outcome::TableConflict(_) => {
            if !viols.is_empty() {
                return fail(
                    "violation-not-enforced",
                    format!("generate returned {} although the file violates static rules: {viols:?}", out.brief()),
                );
            }
        }
        verr => {
            if viols.is_empty() {
                return fail("spurious-validation-error", format!("{verr:?} reported for a file that violates no static rule"));
            }
            if !refvalidate::admissible(verr, &viols) {
                return fail("untruthful-validation-error", format!("{verr:?} does not describe any violation present; present: {viols:?}"));
            }
        }
    }
    Ok((viols, out))
}

fn c10_test(raw: &RawC10, st: &mut Stats) -> Result<(), Failure> {
    let opts = DecorOpts { attrs: false, types: true, pool_names: true, max_type_depth: 2 };
    let (_, _, mut file) = decorated_file(&raw.text, opts);
    let mut ch = Chooser::new(&raw.text.soup);
    if raw.collapse {
        collapse_names(&mut file, &mut ch);
        st.class("gen:names-collapsed-to-3-name-pool");
    }
    for inj in &raw.injections {
        inject(&mut file, *inj);
    }
    let r = layout::render(&file.atoms(), &raw.text.layout);
    let (viols, out) = c10_judge(&r.text)?;
    text_size_classes(&r.text, st);
    st.class(&format!("violations-present:{}", viols.len().min(4)));
    for v in &viols {
        st.class(&format!("present:{}", v.kind()));
    }
    st.class(&format!("reported:{}", match &out {
        Outcome::Ok(_) => "Ok",
        Outcome::TableConflict(_) => "TableConflict",
        Outcome::NoStart => "NoStartSymbol",
        Outcome::MultipleStarts(_) => "MultipleStartSymbols",
        Outcome::NoTerminalEnum => "NoTerminalEnum",
        Outcome::MultipleTerminalEnums(_) => "MultipleTerminalEnums",
        Outcome::NotUpper(_) => "SymbolOrTerminalEnumNameFirstLetterNotUppercase",
        Outcome::FieldNotLower(_) => "FieldFirstLetterNotLowercase",
        Outcome::NameClash(..) => "NameClash",
        Outcome::VariantNameClash(..) => "NonterminalEnumVariantNameClash",
        Outcome::VariantSeqClash(..) => "NonterminalEnumVariantSymbolSequenceClash",
        Outcome::UndefinedNonterminal(..) => "UndefinedNonterminal",
        Outcome::UndefinedTerminal(..) => "UndefinedTerminal",
        _ => "other",
    }));
    let first_line_end = r.text.find('\n').unwrap_or(r.text.len());
    let beyond_first_line = |v: &Viol| -> bool {
        let p = match v {
            Viol::UndefinedNonterminal(_, p) | Viol::UndefinedTerminal(_, p) | Viol::NotUpper(p) | Viol::FieldNotLower(p) => *p,
            Viol::NameClash(_, ps) | Viol::VariantNameClash(_, ps) | Viol::VariantSeqClash(_, ps) | Viol::MultipleStarts(ps) | Viol::MultipleTerminalEnums(ps) => {
                *ps.iter().max().unwrap()
            }
            _ => 0,
        };
        p > first_line_end
    };
    if viols.len() >= 2 || viols.iter().any(beyond_first_line) {
        st.nontrivial(&r.text);
        if st.want_sample() && viols.len() >= 2 {
            st.sample(json!({"text": r.text, "violations_present": format!("{viols:?}"), "kiki": out.brief()}));
        }
    }
    Ok(())
}

pub fn c10_replay(case: &Value) -> Result<(), Failure> {
    c10_judge(&case_text(case)?).map(|_| ())
}

pub const C10_RULE: &str = "syntactically valid files built from a generated grammar (pool names, payload types) by 0..4 violation injections (duplicate/delete start or terminal declaration, start naming a terminal or nothing, undefined nonterminal/terminal, reference that exists only in the other namespace, clashes among the three top-level namespaces, duplicate variant name, duplicate symbol sequence incl. different `_` masks, wrong capitalisation of each name kind incl. letter-less names) or by collapsing all names into a 3-name pool; random layouts. Oracle: reference validator computes the set V of all violations present; V non-empty => validation error that truthfully describes a member of V (variant, name / sequence, byte positions); V empty => Ok or TableConflict. Non-trivial = |V| >= 2 or a violating identifier beyond the first line; distinct = the text.";

pub fn c10_run(ctx: &Ctx) -> i32 {
    let mut rep = Report::new(ctx, C10_RULE);
    rep.assumptions = vec![
        "when several violations are present any of them may be reported; clash positions are accepted in either order; Multiple* errors may list any >= 2 distinct positions of such declarations".into(),
        "names without any ASCII letter satisfy both capitalisation rules (as documented); identifiers inside payload types are not subject to any rule".into(),
    ];
    regress(ctx, &mut rep, "C10", c10_replay);
    let cases = ctx.budget(300_000, 5_000_000);
    let out = run_sharded(ctx, "C10", cases, raw_c10, c10_test);
    rep.absorb("E1-proptest", out);
    if ctx.tier == Tier::Thorough {
        crate::fuzzrun::run_into(ctx, &mut rep, crate::fuzzrun::Campaign { target: "text_frontend", prop: "C10", runs_total: (ctx.scale * 20_000_000.0) as u64, max_len: 2048, seeds: crate::fuzzrun::text_seeds(), dict: true });
        crate::fuzzrun::run_into(ctx, &mut rep, crate::fuzzrun::raw_campaign("C10", (ctx.scale * 500_000.0) as u64));
    }
    quota_check(
        &mut rep,
        &[
            "violations-present:0",
            "present:NoStartSymbol",
            "present:MultipleStartSymbols",
            "present:NoTerminalEnum",
            "present:MultipleTerminalEnums",
            "present:UndefinedNonterminal",
            "present:UndefinedTerminal",
            "present:NameClash",
            "present:NonterminalEnumVariantNameClash",
            "present:NonterminalEnumVariantSymbolSequenceClash",
            "present:SymbolOrTerminalEnumNameFirstLetterNotUppercase",
            "present:FieldFirstLetterNotLowercase",
        ],
    );
    rep.finish()
}

// ---------------------------------------------------------------------------
// C16

fn map_pos(p: usize, a: &Rendered, b: &Rendered, eof_rule_first: bool) -> Option<(usize, bool)> {
    // position inside atom k -> same offset in rendering b; "just past atom k" -> just past atom k in b;
    // end of text -> end of text. Returns (pos, inside_atom).
    for (k, (s, e)) in a.spans.iter().enumerate() {
        if p >= *s && p < *e {
            return Some((b.spans[k].0 + (p - s), true));
        }
    }
    if eof_rule_first && p == a.text.len() {
        return Some((b.text.len(), false));
    }
    for (k, (_, e)) in a.spans.iter().enumerate() {
        if p == *e {
            return Some((b.spans[k].1, false));
        }
    }
    if p == a.text.len() {
        return Some((b.text.len(), false));
    }
    None
}

pub fn c16_compare(ra: &Rendered, rb: &Rendered) -> Result<(&'static str, Outcome), (String, String)> {
    let oa = outcome::generate(&ra.text);
    let ob = outcome::generate(&rb.text);
    let bad = |d: String| Err(("layout-changes-result".to_string(), d));
    let mp = |p: usize| map_pos(p, ra, rb, false);
    let same_pos = |p: usize, q: usize| -> bool { map_pos(p, ra, rb, true).map_or(false, |(x, _)| x == q) };
    let stage = oa.stage();
    let ok = match (&oa, &ob) {
        (Outcome::Panic(p), _) | (_, Outcome::Panic(p)) => return Err(("panic".into(), format!("generate panicked: {p}"))),
        (Outcome::Ok(x), Outcome::Ok(y)) => {
            if crate::emitted::strip_hash_line(x) != crate::emitted::strip_hash_line(y) {
                let (lx, ly) = (crate::emitted::strip_hash_line(x), crate::emitted::strip_hash_line(y));
                let diff = lx.lines().zip(ly.lines()).position(|(a, b)| a != b);
                return bad(format!("emitted text differs beyond the hash line (first differing line index {diff:?})"));
            }
            true
        }
        (Outcome::Lex(i, c), Outcome::Lex(j, d)) => match mp(*i) {
            Some((x, inside)) => x == *j && (!inside || c == d),
            None => false,
        },
        (Outcome::Parse(s, t, e), Outcome::Parse(s2, t2, e2)) => same_pos(*s, *s2) && t == t2 && e - s == e2 - s2,
        (Outcome::NoStart, Outcome::NoStart) | (Outcome::NoTerminalEnum, Outcome::NoTerminalEnum) => true,
        (Outcome::MultipleStarts(a), Outcome::MultipleStarts(b)) | (Outcome::MultipleTerminalEnums(a), Outcome::MultipleTerminalEnums(b)) => {
            a.len() == b.len() && a.iter().zip(b).all(|(p, q)| same_pos(*p, *q))
        }
        (Outcome::NotUpper(p), Outcome::NotUpper(q)) | (Outcome::FieldNotLower(p), Outcome::FieldNotLower(q)) => same_pos(*p, *q),
        (Outcome::NameClash(n, a, b), Outcome::NameClash(n2, a2, b2)) | (Outcome::VariantNameClash(n, a, b), Outcome::VariantNameClash(n2, a2, b2)) => {
            n == n2 && same_pos(*a, *a2) && same_pos(*b, *b2)
        }
        (Outcome::VariantSeqClash(n, a, b), Outcome::VariantSeqClash(n2, a2, b2)) => n == n2 && same_pos(*a, *a2) && same_pos(*b, *b2),
        (Outcome::UndefinedNonterminal(n, p), Outcome::UndefinedNonterminal(n2, q)) | (Outcome::UndefinedTerminal(n, p), Outcome::UndefinedTerminal(n2, q)) => {
            n == n2 && same_pos(*p, *q)
        }
        (Outcome::TableConflict(x), Outcome::TableConflict(y)) => x.state_index == y.state_index && x.items == y.items && x.machine == y.machine,
        _ => false,
    };
    if ok {
        Ok((stage, oa))
    } else {
        bad(format!("layout A gives {}, layout B gives {}", oa.brief(), ob.brief()))
    }
}

pub fn c16_judge(text_a: &str, text_b: &str) -> Result<&'static str, Failure> {
    let case = json!({"source": text_a, "source_b": text_b});
    // recover the token spans of both texts with the reference tokenizer (must be the same token list)
    let spans = |t: &str| -> Option<(Vec<(TokKind, String)>, Vec<(usize, usize)>, bool)> {
        match reftok::tokenize(t) {
            Ok(v) => Some((v.iter().map(|x| (x.kind, x.text.clone())).collect(), v.iter().map(|x| (x.start, x.end)).collect(), true)),
            Err(f) => {
                // the offending lexeme gets a pseudo-span from its start to the end of the text: positions inside
                // (or just past) it keep their offset from its start
                let mut sp: Vec<(usize, usize)> = f.tokens_before.iter().map(|x| (x.start, x.end)).collect();
                sp.push((f.at, t.len() + 1));
                Some((f.tokens_before.iter().map(|x| (x.kind, x.text.clone())).collect(), sp, false))
            }
        }
    };
    let (ka, sa, oka) = spans(text_a).unwrap();
    let (kb, sb, okb) = spans(text_b).unwrap();
    if ka != kb || oka != okb {
        return Err(Failure::internal("not-a-relayout", "the two texts do not have the same token list".into(), case));
    }
    let ra = Rendered { text: text_a.to_string(), spans: sa, features: Default::default() };
    let rb = Rendered { text: text_b.to_string(), spans: sb, features: Default::default() };
    match c16_compare(&ra, &rb) {
        Ok((stage, _)) => Ok(stage),
        Err((k, d)) => Err(Failure::new(&k, d, case)),
    }
}

const C16_FAMILIES: &[u8] = &[0, 0, 0, 1, 2, 3];

fn c16_test(raw: &RawC10, st: &mut Stats) -> Result<(), Failure> {
    // token list: as C08/C09 families, or a file with static violations injected
    let atoms: Vec<Atom> = if raw.collapse || !raw.injections.is_empty() && raw.text.family == 0 {
        let opts = DecorOpts { attrs: true, types: true, pool_names: true, max_type_depth: 2 };
        let (_, _, mut file) = decorated_file(&raw.text, opts);
        let mut ch = Chooser::new(&raw.text.soup);
        if raw.collapse {
            collapse_names(&mut file, &mut ch);
        }
        for inj in &raw.injections {
            inject(&mut file, *inj);
        }
        st.class("family:file-with-injected-static-violations");
        file.atoms()
    } else {
        let (tc, _) = build_atoms(&raw.text);
        st.class(family_name(tc.family));
        tc.atoms.unwrap()
    };
    let ra = layout::render(&atoms, &raw.text.layout);
    // second layout: often the minimal one (no separators, one line where attributes allow)
    let minimal = raw.text.layout2.first().map_or(true, |x| x % 4 == 0);
    let rb = if minimal { layout::render(&atoms, &[0, 0, 0, 0]) } else { layout::render(&atoms, &raw.text.layout2) };
    if minimal {
        st.class("layout-b:minimal");
    }
    // error atoms whose failure position falls outside the atom need the spans of the atoms, which we have
    // kinds of layout feature that occur in at least one of the two renderings
    let diff_kinds = if ra.text == rb.text || atoms.len() < 3 {
        0
    } else {
        [
            ra.features.comments > 0 || rb.features.comments > 0,
            ra.features.crlf > 0 || rb.features.crlf > 0,
            ra.features.unicode_ws > 0 || rb.features.unicode_ws > 0,
            ra.features.adjacent > 0 || rb.features.adjacent > 0,
            ra.features.eof_comment || rb.features.eof_comment,
        ]
        .iter()
        .filter(|b| **b)
        .count()
    };
    for (k, on) in [
        ("comments", (ra.features.comments > 0) != (rb.features.comments > 0)),
        ("crlf", (ra.features.crlf > 0) != (rb.features.crlf > 0)),
        ("unicode-whitespace", (ra.features.unicode_ws > 0) != (rb.features.unicode_ws > 0)),
        ("adjacency", (ra.features.adjacent > 0) != (rb.features.adjacent > 0)),
        ("eof-comment", ra.features.eof_comment != rb.features.eof_comment),
    ] {
        if on {
            st.class(&format!("only-one-layout-has:{k}"));
        }
    }
    let case = json!({"source": ra.text, "source_b": rb.text});
    // generator self-check: both renderings must have the same reference token list
    let view = |t: &str| match reftok::tokenize(t) {
        Ok(v) => (v.iter().map(|x| (x.kind, x.text.clone())).collect::<Vec<_>>(), true),
        Err(f) => (f.tokens_before.iter().map(|x| (x.kind, x.text.clone())).collect::<Vec<_>>(), false),
    };
    if view(&ra.text) != view(&rb.text) {
        if std::env::var("VERIF_DEBUG").is_ok() {
            let (va, vb) = (view(&ra.text), view(&rb.text));
            let i = va.0.iter().zip(&vb.0).position(|(x, y)| x != y).unwrap_or(va.0.len().min(vb.0.len()));
            eprintln!("DEBUG self-check diff at {i}: {:?} vs {:?}; ok {} {} lens {} {} atoms {}", va.0.get(i), vb.0.get(i), va.1, vb.1, va.0.len(), vb.0.len(), atoms.len());
            eprintln!("DEBUG atom {:?} {:?}", atoms.get(i), atoms.get(i + 1));
        }
        st.discard("generator self-check: the two renderings do not re-tokenise to the same token list");
        return Ok(());
    }
    match c16_compare(&ra, &rb) {
        Ok((stage, _)) => {
            st.class(&format!("outcome:{stage}"));
            text_size_classes(&ra.text, st);
            if ra.features.huge_lead != rb.features.huge_lead {
                st.class("only-one-layout-has:first-token-beyond-64KiB");
            }
            if diff_kinds >= 3 {
                st.nontrivial(&(ra.text.clone(), rb.text.clone()));
                if st.want_sample() {
                    st.sample(json!({"layout_a": ra.text, "layout_b": rb.text, "outcome": stage}));
                }
            }
            Ok(())
        }
        Err((k, d)) => Err(Failure::new(&k, d, case)),
    }
}

pub fn c16_replay(case: &Value) -> Result<(), Failure> {
    let a = case_text(case)?;
    let b = case["source_b"].as_str().ok_or_else(|| Failure::internal("bad-replay", "no source_b".into(), case.clone()))?;
    c16_judge(&a, b).map(|_| ())
}

fn raw_c16() -> impl Strategy<Value = RawC10> {
    (raw_text(C16_FAMILIES), proptest::collection::vec((0u8..16, any::<u16>(), any::<u16>()), 0..=2), prop::bool::weighted(0.05))
        .prop_map(|(text, injections, collapse)| RawC10 { text, injections, collapse })
}

pub const C16_RULE: &str = "token lists of every outcome class (valid decorated files, files with injected static violations, token-edited files, token soup, files with lexically bad atoms) rendered under two independent layouts (any Unicode whitespace, LF/CRLF, comments with arbitrary content, comment at EOF without newline, no separator wherever adjacency keeps the token list; layout B is the minimal one in ~1/4 of the cases). Metamorphic oracle: Ok outputs equal after deleting the `// @sha256` line; errors equal after mapping every byte position through the token-boundary map between the renderings. Non-trivial = at least 3 tokens, the two texts differ, and together they exercise >= 3 of {comments, CRLF, non-ASCII whitespace, adjacency, EOF comment} (the classes `only-one-layout-has:*` count the pairs in which a kind occurs on one side only); distinct = the pair of texts.";

pub fn c16_run(ctx: &Ctx) -> i32 {
    let mut rep = Report::new(ctx, C16_RULE);
    rep.assumptions = vec![
        "for a lexical error reported just past an atom (reserved word after `$`) the character payload is layout dependent by nature and is only compared when the position lies inside the atom".into(),
        "unterminated attributes are excluded: their extent depends on where the next line break is, so a re-layout does not keep the token sequence".into(),
    ];
    regress(ctx, &mut rep, "C16", c16_replay);
    let cases = ctx.budget(150_000, 3_000_000);
    let out = run_sharded(ctx, "C16", cases, raw_c16, c16_test);
    rep.absorb("E1-proptest", out);
    if ctx.tier == Tier::Thorough {
        crate::fuzzrun::run_into(ctx, &mut rep, crate::fuzzrun::Campaign { target: "text_frontend", prop: "C16", runs_total: (ctx.scale * 20_000_000.0) as u64, max_len: 2048, seeds: crate::fuzzrun::text_seeds(), dict: true });
        crate::fuzzrun::run_into(ctx, &mut rep, crate::fuzzrun::raw_campaign("C16", (ctx.scale * 500_000.0) as u64));
    }
    quota_check(&mut rep, &["outcome:ok", "outcome:lex-error", "outcome:parse-error", "outcome:validation-error", "outcome:table-conflict"]);
    rep.finish()
}
