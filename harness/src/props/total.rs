//! C07 (generate is total) and C14 (generate is deterministic), including the
//! child-process engine E4 (`verif worker …`).

use super::common::*;
use super::frontend::{build_text, family_name, inject, raw_text, RawText};
use super::lalr::{quota_check, regress};
use crate::engine::*;
use crate::layout;
use crate::outcome::{self, Outcome};
use crate::refparse;
use crate::reftok;
use crate::refvalidate;
use proptest::prelude::*;
use proptest::strategy::ValueTree;
use proptest::test_runner::{Config, RngSeed, TestRunner};
use serde_json::{json, Value};
use std::io::Write;
use std::process::{Command, Stdio};
use std::time::{Duration, Instant};

// ---------------------------------------------------------------------------
// text pool shared by C07 and C14

#[derive(Clone, Debug)]
pub struct RawAny {
    pub text: RawText,
    pub injections: Vec<(u8, u16, u16)>,
    /// map all names into a 3-name pool first (many simultaneous clashes of the same kind)
    pub collapse: bool,
    /// adversarial identifier assignment (helper names and their digit-suffixed forms: State, State2, State3 ...)
    pub adversarial: bool,
}

const ALL_FAMILIES: &[u8] = &[0, 0, 0, 1, 2, 3, 4, 5, 6, 7];

fn raw_any() -> impl Strategy<Value = RawAny> {
    (raw_text(ALL_FAMILIES), proptest::collection::vec((0u8..16, any::<u16>(), any::<u16>()), 0..=3), prop::bool::weighted(0.1))
        .prop_map(|(text, injections, collapse)| RawAny { text, injections, collapse, adversarial: false })
}

impl RawAny {
    /// Decoding from fuzzer bytes (E3 target `raw_struct`): the same value space as `raw_any`.
    pub fn from_bytes(b: &mut crate::gen::Bytes, families: &[u8]) -> RawAny {
        let flags = b.u8();
        let ni = b.len(4);
        let injections = (0..ni).map(|_| (b.u8() % 16, b.u16_full(), b.u16_full())).collect();
        let text = RawText::from_bytes(b, families);
        RawAny { text, injections, collapse: flags & 7 == 7, adversarial: flags & 0x38 == 0x38 }
    }
}

/// The text of a case and a label for its origin.
pub fn any_text(raw: &RawAny) -> (String, &'static str) {
    if raw.adversarial && raw.text.family == 0 {
        let (sp, _) = crate::gen::build(&raw.text.grammar);
        let mut ch = crate::layout::Chooser::new(&raw.text.decor);
        let adv = super::hygiene::adversarial_naming(&sp, &mut ch);
        let file = crate::spec::to_rfile(&sp, &adv.naming);
        return (layout::render(&file.atoms(), &raw.text.layout).text, "family:adversarially-named-file");
    }
    if raw.text.family == 0 && (!raw.injections.is_empty() || raw.collapse) {
        let opts = crate::textgen::DecorOpts { attrs: true, types: true, pool_names: true, max_type_depth: 3 };
        let (_, _, mut file) = super::frontend::decorated_file(&raw.text, opts);
        if raw.collapse {
            let mut ch = crate::layout::Chooser::new(&raw.text.soup);
            super::frontend::collapse_names(&mut file, &mut ch);
        }
        for i in &raw.injections {
            inject(&mut file, *i);
        }
        (layout::render(&file.atoms(), &raw.text.layout).text, "family:file-with-injected-static-violations")
    } else {
        let (tc, text, _) = build_text(&raw.text);
        (text, family_name(tc.family))
    }
}

/// Which stage does the reference say the text reaches? (for the non-triviality rule and histograms)
fn reference_stage(text: &str) -> &'static str {
    match reftok::tokenize(text) {
        Err(_) => "ref:lexically-invalid",
        Ok(toks) => match refparse::read_file(&toks) {
            Err(_) => "ref:lexes-but-does-not-parse",
            Ok(file) => {
                if refvalidate::violations(&file).is_empty() {
                    "ref:fully-valid"
                } else {
                    "ref:parses-but-statically-invalid"
                }
            }
        },
    }
}

// ---------------------------------------------------------------------------
// C07

pub fn c07_judge(text: &str) -> Result<&'static str, Failure> {
    match outcome::generate(text) {
        Outcome::Panic(p) => Err(Failure::new("panic", format!("generate panicked: {p}"), text_case(text))),
        o => Ok(o.stage()),
    }
}

fn c07_test(raw: &RawAny, st: &mut Stats) -> Result<(), Failure> {
    let (text, fam) = any_text(raw);
    st.class(fam);
    text_size_classes(&text, st);
    let rs = reference_stage(&text);
    st.class(rs);
    let stage = c07_judge(&text)?;
    st.class(&format!("outcome:{stage}"));
    let nontrivial = rs != "ref:lexically-invalid" || !text.is_ascii() || text.contains("#[");
    if nontrivial {
        st.nontrivial(&text);
        if st.want_sample() && rs == "ref:parses-but-statically-invalid" {
            st.sample(json!({"text": text, "outcome": stage}));
        }
    }
    Ok(())
}

/// Unusual but well-formed grammars and size-stress inputs within the stated bounds.
pub fn stress_inputs(tier: Tier) -> Vec<(String, String)> {
    let mut v: Vec<(String, String)> = vec![];
    let n_decl = 2000;
    let list = tier.pick(800, 2000);
    let fields = 2000;
    let mut s = String::from("start A0 terminal T { $X: () }\n");
    for i in 0..n_decl {
        s.push_str(&format!("struct A{i}\n"));
    }
    v.push(("2000 trivial struct declarations".into(), s));
    let mut s = String::from("start A0 terminal T { $X: () }\n");
    for i in 0..n_decl {
        s.push_str(&format!("struct A{i}(A{})\n", (i + 1) % n_decl));
    }
    v.push(("2000 struct declarations in one unproductive cycle".into(), s));
    let mut s = String::new();
    for i in 0..n_decl {
        s.push_str(&format!("start A{i}\n"));
    }
    v.push(("2000 start declarations".into(), s));
    let mut s = String::new();
    for i in 0..n_decl {
        s.push_str(&format!("terminal T{i} {{ }}\n"));
    }
    v.push(("2000 terminal declarations".into(), s));
    let mut s = String::from("start S terminal T { ");
    for i in 0..list {
        s.push_str(&format!("$T{i}: () "));
    }
    s.push_str("} enum S { ");
    for i in 0..list {
        s.push_str(&format!("V{i}($T{i}) "));
    }
    s.push('}');
    v.push((format!("{list} terminals and an enum with {list} variants"), s));
    let mut s = String::from("start S struct A terminal T { } struct S(");
    for _ in 0..fields {
        s.push_str("A ");
    }
    s.push(')');
    v.push((format!("one fieldset with {fields} fields"), s));
    let mut s = String::from("start S terminal T { $X: () } struct S { ");
    for i in 0..fields {
        s.push_str(&format!("f{i}: $X "));
    }
    s.push('}');
    v.push((format!("named fieldset with {fields} terminal fields"), s));
    for depth in [64usize, 256] {
        let mut ty = String::from("()");
        for d in 0..depth {
            ty = format!("a{d}::B<{ty}, ()>");
        }
        v.push((format!("payload type nested to depth {depth}"), format!("start S struct S($X) terminal T {{ $X: {ty} }}")));
    }
    // names made of non-letters (the capitalisation rules look for the first letter)
    v.push(("identifier of 65 000 underscores and a letter".into(), format!("start {0} struct {0} terminal T {{ }}", format!("{}A", "_".repeat(32_400)))));
    v.push(("terminal enum named with 60 000 underscores and digits".into(), format!("start S struct S terminal {}9T {{ }}", "_0".repeat(30_000))));
    // width instead of depth: lists that a recursive conversion would walk one frame per element
    v.push(("payload type path with 21 000 one-letter segments (63 KB)".into(), format!("start S struct S($X) terminal T {{ $X: {}Q }}", "a::".repeat(21_000))));
    v.push(("generic payload type with 21 000 one-letter arguments (63 KB)".into(), format!("start S struct S($X) terminal T {{ $X: G<{}b> }}", "a, ".repeat(21_000))));
    let segs: Vec<String> = (0..5000).map(|i| format!("m{i}")).collect();
    v.push(("payload type path with 5000 segments".into(), format!("start S struct S($X) terminal T {{ $X: {}::Q }}", segs.join("::"))));
    let args: Vec<String> = (0..5000).map(|i| format!("A{i}")).collect();
    v.push(("generic payload type with 5000 arguments".into(), format!("start S struct S($X) terminal T {{ $X: G<{}> }}", args.join(", "))));
    let mut s = String::from("start S struct S($X0) ");
    for i in 0..2000 {
        s.push_str(&format!("#[t{i}] "));
    }
    s.push_str("terminal T { ");
    for i in 0..2000 {
        s.push_str(&format!("$X{i}: () "));
    }
    s.push('}');
    v.push(("2000 attributes on a terminal declaration with 2000 unused terminals".into(), s));
    let mut s = String::new();
    for i in 0..2000 {
        s.push_str(&format!("#[a{i}({{[x]}})] "));
    }
    s.push_str("struct S start S terminal T { }");
    v.push(("2000 attributes on one declaration".into(), s));
    let big = 64 * 1024 - 64;
    v.push(("64 KiB identifier".into(), format!("start {0} struct {0} terminal T {{ }}", "A".repeat(big / 2))));
    v.push(("64 KiB comment without newline at EOF".into(), format!("start S struct S terminal T {{ }} //{}", "é".repeat(big / 2))));
    v.push(("64 KiB of Unicode whitespace".into(), format!("start S{}struct S terminal T {{ }}", "\u{3000}".repeat(big / 3))));
    v.push((
        "attribute with 30000 nested brackets".into(),
        format!("#[{}{}] struct S start S terminal T {{ }}", "(".repeat(30_000), ")".repeat(30_000)),
    ));
    v.push(("attribute with 30000 unclosed brackets".into(), format!("#[{} struct S start S terminal T {{ }}", "[".repeat(30_000))));
    v.push(("64 KiB of `$`".into(), "$".repeat(big)));
    v.push(("64 KiB of `:`".into(), ":".repeat(big)));
    v.push(("64 KiB of `(`".into(), format!("start S struct S{}", "(".repeat(big))));
    v.push(("32 K unit variants, all with the same (empty) symbol sequence".into(), {
        let mut s = String::from("start S terminal T { } enum S { A ");
        for i in 0..2000 {
            s.push_str(&format!("B{i} "));
        }
        s.push('}');
        s
    }));
    // layered grammars: cost must stay polynomial in the depth (each costs milliseconds on the current tree)
    {
        let depth = 60;
        let mut s = String::from("start A0 terminal Token { $X: () $Y: () $Z: () }\n");
        for i in 0..depth {
            s.push_str(&format!("enum A{i} {{ P(A{} $X) Q(A{} $Y) }}\n", i + 1, i + 1));
        }
        s.push_str(&format!("enum A{depth} {{ P($Z) }}\n"));
        v.push((format!("chain of {depth} nonterminals whose two rules start with the same next nonterminal"), s));
        let depth = 300;
        let mut s = String::from("start A0 terminal Token { $Z: () }\n");
        for i in 0..depth {
            s.push_str(&format!("struct A{i}(A{})\n", i + 1));
        }
        s.push_str(&format!("struct A{depth}($Z)\n"));
        v.push((format!("unit chain of {depth} nonterminals"), s));
        let depth = 100;
        let mut s = String::from("start A0 terminal Token { $X: () $Y: () $Z: () }\n");
        for i in 0..depth {
            s.push_str(&format!("struct A{i}(O{i} $Y A{})\nenum O{i} {{ N S($X) }}\n", i + 1));
        }
        s.push_str(&format!("struct A{depth}($Z)\n"));
        v.push((format!("chain of {depth} nonterminals each behind its own optional"), s));
        let depth = 40;
        let mut s = String::from("start E0 terminal Token { $Num: () $L: () $R: () ");
        for i in 0..depth {
            s.push_str(&format!("$Op{i}: () "));
        }
        s.push_str("}\n");
        for i in 0..depth {
            s.push_str(&format!("enum E{i} {{ Bin(E{i} $Op{i} E{}) Up(E{}) }}\n", i + 1, i + 1));
        }
        s.push_str(&format!("enum E{depth} {{ Num($Num) Paren($L E0 $R) }}\n"));
        v.push((format!("expression grammar with {depth} precedence levels"), s));
        let n = 120;
        let mut s = String::from("start S terminal Token { $A: () $B: () }\nenum S {\n");
        for i in 0..n {
            s.push_str(&format!("  V{i}("));
            for b in 0..7 {
                s.push_str(if i >> b & 1 == 1 { "$A " } else { "$B " });
            }
            s.push_str(")\n");
        }
        s.push_str("}\n");
        v.push((format!("{n} rules with long common prefixes over two terminals"), s));
    }
    // unusual well-formed grammars
    for (name, g) in [
        ("variant-less start enum", "start E enum E { } terminal T { }"),
        ("variant-less enum referenced", "start A struct A(E) enum E { } terminal T { $X: () }"),
        ("no terminals", "start A struct A terminal T { }"),
        ("no terminals, nullable chain", "start A struct A(B B) enum B { Nil } terminal T { }"),
        ("only unproductive nonterminals", "start A struct A(B) struct B(A) terminal T { $X: () }"),
        ("unreachable unproductive nonterminal", "start A struct A($X) struct U(U) terminal T { $X: () }"),
        ("nonterminal named like a terminal in the other namespace is a clash", "start Foo struct Foo terminal T { $Foo: () }"),
        ("self-referential start", "start A struct A(A) terminal T { }"),
        ("letter-less names", "start _0 struct _0 { _1: __ _: $_2 } struct __ terminal _3 { $_2: () }"),
        ("multi-byte characters in comments and attributes", "// é€𝄞\n#[doc = \"𝄞\"] struct S start S // 中\nterminal T { } // €"),
    ] {
        v.push((name.to_string(), g.to_string()));
    }
    v
}

/// Runs texts in a child process (its main thread: default stack) and tells which input, if any, killed it.
pub enum ChildVerdict {
    AllDone(Vec<String>),
    /// (index of the input being processed when the child died, how it died)
    Died(usize, String),
    Timeout(usize),
    Broken(String),
}

pub fn run_in_child(ctx: &Ctx, kind: &str, texts: &[String], timeout: Duration) -> ChildVerdict {
    run_in_child_exe(ctx, None, kind, texts, timeout)
}

/// The second build of this harness (cargo's dev profile: kiki unoptimised, with debug assertions and
/// overflow checks — the profile cargo compiles build-dependencies in by default). check.sh builds it for C07.
pub fn debug_worker_exe(root: &std::path::Path) -> Option<std::path::PathBuf> {
    let p = root.join("harness/target/debug/verif");
    p.exists().then_some(p)
}

pub fn run_in_child_exe(ctx: &Ctx, worker_exe: Option<&std::path::Path>, kind: &str, texts: &[String], timeout: Duration) -> ChildVerdict {
    let work = ctx.root.join(".work");
    let _ = std::fs::create_dir_all(&work);
    let infile = work.join(format!("{kind}-{}-{:x}.json", std::process::id(), hash_of(&texts)));
    if let Err(e) = std::fs::write(&infile, serde_json::to_string(texts).unwrap()) {
        return ChildVerdict::Broken(format!("cannot write {}: {e}", infile.display()));
    }
    let exe = match worker_exe {
        Some(p) => p.to_path_buf(),
        None => match std::env::current_exe() {
            Ok(e) => e,
            Err(e) => return ChildVerdict::Broken(format!("current_exe: {e}")),
        },
    };
    let mut cmd = Command::new(exe);
    cmd.arg("worker").arg(kind).arg(&infile).stdout(Stdio::piped()).stderr(Stdio::null());
    crate::engine::die_with_parent(&mut cmd);
    let child = cmd.spawn();
    let mut child = match child {
        Ok(c) => c,
        Err(e) => {
            let _ = std::fs::remove_file(&infile);
            return ChildVerdict::Broken(format!("spawn: {e}"));
        }
    };
    let mut stdout = child.stdout.take().unwrap();
    let reader = std::thread::spawn(move || {
        let mut s = String::new();
        let _ = std::io::Read::read_to_string(&mut stdout, &mut s);
        s
    });
    let started = Instant::now();
    let status = loop {
        match child.try_wait() {
            Ok(Some(st)) => break Some(st),
            Ok(None) => {
                if started.elapsed() > timeout {
                    let _ = child.kill();
                    let _ = child.wait();
                    break None;
                }
                std::thread::sleep(Duration::from_millis(5));
            }
            Err(_) => break None,
        }
    };
    let out = reader.join().unwrap_or_default();
    let _ = std::fs::remove_file(&infile);
    let mut results: Vec<String> = vec![];
    let mut current: Option<usize> = None;
    for l in out.lines() {
        if let Some(r) = l.strip_prefix("BEGIN ") {
            current = r.trim().parse().ok();
        } else if let Some(r) = l.strip_prefix("END ") {
            let mut it = r.splitn(2, ' ');
            let _ = it.next();
            results.push(it.next().unwrap_or("").to_string());
            current = None;
        }
    }
    match status {
        None => ChildVerdict::Timeout(current.unwrap_or(results.len())),
        Some(st) if st.success() && results.len() == texts.len() => ChildVerdict::AllDone(results),
        Some(st) => {
            use std::os::unix::process::ExitStatusExt;
            let how = match st.signal() {
                Some(sig) => format!("killed by signal {sig}"),
                None => format!("exit status {:?}", st.code()),
            };
            ChildVerdict::Died(current.unwrap_or(results.len()), how)
        }
    }
}

fn c07_children(ctx: &Ctx, rep: &mut Report, label: &str, named: &[(String, String)], per_batch: usize, timeout: Duration) {
    c07_children_exe(ctx, rep, label, named, per_batch, timeout, None)
}

fn debug_case(text: &str) -> Value {
    json!({ "source": text, "worker": "debug" })
}

/// `debug` = Some(path of the dev-profile worker): failures carry `"worker": "debug"` so that the replay uses the same
/// build, and a watchdog trip is only counted (an unoptimised kiki is 10-50x slower on the size-stress inputs; the
/// release-build stage judges running time).
fn c07_children_exe(ctx: &Ctx, rep: &mut Report, label: &str, named: &[(String, String)], per_batch: usize, timeout: Duration, debug: Option<&std::path::Path>) {
    // child processes side by side: the inputs are dealt round-robin to `lanes` threads, each running its share in order
    let lanes = if debug.is_some() { ctx.threads.clamp(1, 12) } else { 1 };
    let shares: Vec<Vec<(String, String)>> = (0..lanes).map(|l| named.iter().skip(l).step_by(lanes).cloned().collect()).collect();
    let outs: Vec<RunOutcome> = std::thread::scope(|sc| {
        let hs: Vec<_> = shares.iter().map(|share| sc.spawn(move || c07_children_lane(ctx, share, per_batch.div_ceil(lanes).max(1), timeout, debug))).collect();
        hs.into_iter().map(|h| h.join().expect("lane thread")).collect()
    });
    let mut all = RunOutcome { stats: Stats::default(), failures: vec![] };
    for o in outs {
        all.stats.merge(o.stats);
        all.failures.extend(o.failures);
    }
    rep.absorb(label, all);
}

fn c07_children_lane(ctx: &Ctx, named: &[(String, String)], per_batch: usize, timeout: Duration, debug: Option<&std::path::Path>) -> RunOutcome {
    let mk_case = |t: &str| if debug.is_some() { debug_case(t) } else { text_case(t) };
    let build = if debug.is_some() { " (debug build of kiki)" } else { "" };
    let mut st = Stats::default();
    let mut fails = vec![];
    let mut idx = 0;
    while idx < named.len() {
        let batch: Vec<String> = named[idx..(idx + per_batch).min(named.len())].iter().map(|(_, t)| t.clone()).collect();
        match run_in_child_exe(ctx, debug, "c07", &batch, timeout) {
            ChildVerdict::AllDone(res) => {
                for (k, r) in res.iter().enumerate() {
                    st.evaluations += 1;
                    st.class(&format!("child-outcome:{}", r.split(' ').next().unwrap_or("")));
                    st.nontrivial(&named[idx + k].1);
                    if r.starts_with("panic") {
                        fails.push(Failure::new("panic", format!("generate panicked in a child process{build} on `{}`: {r}", named[idx + k].0), mk_case(&named[idx + k].1)));
                    }
                }
                idx += batch.len();
            }
            ChildVerdict::Died(k, how) => {
                st.evaluations += k as u64 + 1;
                let (name, text) = &named[idx + k];
                fails.push(Failure::new(
                    "abort",
                    format!("the process running generate{build} died ({how}) on input `{name}` ({} bytes) — stack overflow, abort or out-of-memory on an in-bounds input", text.len()),
                    mk_case(text),
                ));
                idx += k + 1;
            }
            ChildVerdict::Timeout(k) if debug.is_some() => {
                // not judged: the inputs before it in the batch were fine, the rest of the batch is re-run
                st.evaluations += k as u64;
                st.class("debug-build-too-slow-not-judged");
                idx += k + 1;
            }
            ChildVerdict::Timeout(k) => {
                let (name, text) = &named[idx + k];
                fails.push(Failure::internal("watchdog", format!("input `{name}` ({} bytes) exceeded the watchdog of {:?}; inconclusive", text.len(), timeout), text_case(text)));
                idx += k + 1;
            }
            ChildVerdict::Broken(e) => {
                fails.push(Failure::internal("child-engine", e, Value::Null));
                break;
            }
        }
    }
    RunOutcome { stats: st, failures: fails }
}

/// Second opinion on a suspected hang: the text alone, in a fresh child process, with a long limit
/// (VERIF_CONFIRM_TIMEOUT seconds, default 300). true = the child did not return either.
pub fn confirm_hang(root: &std::path::Path, text: &str) -> bool {
    let limit = std::env::var("VERIF_CONFIRM_TIMEOUT").ok().and_then(|s| s.parse().ok()).unwrap_or(300);
    let ctx = Ctx { prop: "C07".into(), tier: Tier::Quick, seed: 0, root: root.to_path_buf(), threads: 1, scale: 1.0, shrink_iters: 0 };
    matches!(run_in_child(&ctx, "c07", &[text.to_string()], Duration::from_secs(limit)), ChildVerdict::Timeout(_))
}

/// Generates `n` values of a strategy deterministically (for batches run outside the proptest runner).
pub fn generate_values<S: Strategy>(strategy: &S, n: usize, seed: u64) -> Vec<S::Value> {
    let mut cfg = Config::default();
    cfg.failure_persistence = None;
    cfg.rng_seed = RngSeed::Fixed(seed);
    let mut runner = TestRunner::new(cfg);
    (0..n).filter_map(|_| strategy.new_tree(&mut runner).ok().map(|t| t.current())).collect()
}

/// The stress inputs for the debug-build worker: all of them (the slow ones are cut by the stage's watchdog and
/// not judged) plus depth/width inputs sized for an unoptimised build's larger stack frames.
fn debug_stress_inputs(stress: &[(String, String)]) -> Vec<(String, String)> {
    let mut v: Vec<(String, String)> = stress.to_vec();
    for n in [1_000usize, 5_000, 20_000] {
        v.push((format!("name with {n} leading underscores"), format!("start {0} struct {0} terminal T {{ }}", format!("{}A", "_".repeat(n)))));
        v.push((format!("field name with {n} leading underscores and digits"), format!("start S struct S {{ {}x: $X }} terminal T {{ $X: () }}", "_1".repeat(n / 2))));
        v.push((format!("terminal variant name with {n} leading underscores"), format!("start S struct S($_{0}X) terminal T {{ $_{0}X: () }}", "_".repeat(n))));
    }
    // every list of the Kiki grammar filled up to 64 KiB of source with its shortest element
    let fill = |unit: &str, pre: &str, post: &str| -> String {
        let n = (64 * 1024 - 200 - pre.len() - post.len()) / unit.len();
        format!("{pre}{}{post}", unit.repeat(n))
    };
    for (name, unit, pre, post) in [
        ("path segments", "a::", "start S struct S($X) terminal T { $X: ", "Q }"),
        ("generic arguments", "a,", "start S struct S($X) terminal T { $X: G<", "b> }"),
        ("declarations", "struct A ", "start S terminal T { } ", ""),
        ("attributes", "#[a]", "start S terminal T { } ", " struct S"),
        ("tuple fields", "A ", "start S terminal T { } struct A struct S(", ")"),
        ("skipped tuple fields", "_:A ", "start S terminal T { } struct A struct S(", ")"),
        ("named fields", "a:A ", "start S terminal T { } struct A struct S{", "}"),
        ("enum variants", "A ", "start S terminal T { } enum S {", "}"),
        ("terminal variants", "$A:() ", "start S struct S terminal T {", "}"),
    ] {
        v.push((format!("64 KiB of {name}"), fill(unit, pre, post)));
    }
    v
}

pub fn c07_replay(case: &Value) -> Result<(), Failure> {
    let text = case_text(case)?;
    // in a child process first, so that a hanging input cannot hang the replay
    let root = std::path::PathBuf::from(crate::gen::corpus_dir());
    let ctx = Ctx { prop: "C07".into(), tier: Tier::Quick, seed: 0, root, threads: 1, scale: 1.0, shrink_iters: 0 };
    if case["worker"].as_str() == Some("debug") {
        // found with the dev-profile build of kiki: replay with that build (check.sh replay builds it for C07)
        let exe = std::env::current_exe().ok().and_then(|e| Some(e.parent()?.parent()?.join("debug/verif"))).filter(|p| p.exists());
        let Some(exe) = exe else {
            return Err(Failure::internal("child-engine", "the dev-profile worker harness/target/debug/verif is not built".into(), Value::Null));
        };
        return match run_in_child_exe(&ctx, Some(&exe), "c07", &[text.clone()], Duration::from_secs(300)) {
            ChildVerdict::AllDone(r) if r[0].starts_with("panic") => Err(Failure::new("panic", format!("generate panicked (debug build of kiki): {}", r[0]), case.clone())),
            ChildVerdict::AllDone(_) => Ok(()),
            ChildVerdict::Died(_, how) => Err(Failure::new("abort", format!("the process running generate (debug build of kiki) died ({how})"), case.clone())),
            ChildVerdict::Timeout(_) => Err(Failure::internal("watchdog", "the debug build did not return within 300 s; inconclusive".into(), case.clone())),
            ChildVerdict::Broken(e) => Err(Failure::internal("child-engine", e, Value::Null)),
        };
    }
    match run_in_child(&ctx, "c07", &[text.clone()], Duration::from_secs(60)) {
        ChildVerdict::AllDone(_) => c07_judge(&text).map(|_| ()),
        ChildVerdict::Died(_, how) => Err(Failure::new("abort", format!("the process running generate died ({how})"), case.clone())),
        ChildVerdict::Timeout(_) => Err(Failure::new("does-not-terminate", "generate did not return within 60 s in a child process".into(), case.clone())),
        ChildVerdict::Broken(e) => Err(Failure::internal("child-engine", e, Value::Null)),
    }
}

pub const C07_RULE: &str = "texts of 9 families (decorated valid files, files with injected static violations, token edits, token soup, lexically bad atoms, malformed attributes, character soup, character mutations of generated and repository files) under random layouts, called in-process under catch_unwind; plus size-stress inputs within the stated bounds (2000 declarations, lists of hundreds of elements, type nesting 256, 64 KiB tokens/comments/whitespace, 30000 nested attribute brackets) and unusual well-formed grammars (variant-less enums, no terminals, unproductive / unreachable nonterminals, letter-less names), run in child processes on a default-size main-thread stack so that aborts and stack overflows are observed. Oracle: no panic, no death by signal. Non-trivial = the text reaches beyond the tokenizer (lexes) or contains a multi-byte character or an attribute; distinct = the text.";

pub fn c07_run(ctx: &Ctx) -> i32 {
    let mut rep = Report::new(ctx, C07_RULE);
    rep.assumptions = vec![
        "non-termination cannot be decided by testing: a watchdog trip (120 s per child batch) is reported as inconclusive (exit 2), never as a violation".into(),
        "size bounds as stated in the property; list sizes in the stress set are chosen so that the current tree needs seconds, not minutes".into(),
    ];
    regress(ctx, &mut rep, "C07", c07_replay);
    let out = run_sharded(ctx, "C07", ctx.budget(400_000, 6_000_000), raw_any, c07_test);
    rep.absorb("E1-proptest", out);
    // E4: child processes
    let stress = stress_inputs(ctx.tier);
    c07_children(ctx, &mut rep, "E4-child-stress", &stress, 1, Duration::from_secs(120));
    let n = ctx.budget(4_000, 60_000) as usize;
    let vals = generate_values(&raw_any(), n, ctx.seed ^ 0xC07);
    let named: Vec<(String, String)> = vals.iter().map(|r| any_text(r)).map(|(t, f)| (f.to_string(), t)).collect();
    c07_children(ctx, &mut rep, "E4-child-generated", &named, 500, Duration::from_secs(120));
    // E4 again with the dev-profile build of kiki (what a build script runs by default): stack depth, overflow checks, debug assertions
    match debug_worker_exe(&ctx.root) {
        Some(exe) => {
            let deep = debug_stress_inputs(&stress);
            c07_children_exe(ctx, &mut rep, "E4-child-stress-debug-build", &deep, 1, Duration::from_secs(ctx.tier.pick(6, 120) as u64), Some(&exe));
            let m = ctx.tier.pick(240usize, 6_000usize).min(named.len());
            c07_children_exe(ctx, &mut rep, "E4-child-generated-debug-build", &named[..m], 250, Duration::from_secs(120), Some(&exe));
        }
        None => rep.assumptions.push("the dev-profile worker (harness/target/debug/verif) is not built: the debug-build stages were skipped".into()),
    }
    if ctx.tier == Tier::Thorough {
        crate::fuzzrun::run_into(ctx, &mut rep, crate::fuzzrun::Campaign { target: "text_frontend", prop: "C07", runs_total: (ctx.scale * 20_000_000.0) as u64, max_len: 4096, seeds: crate::fuzzrun::text_seeds(), dict: true });
        crate::fuzzrun::run_into(ctx, &mut rep, crate::fuzzrun::raw_campaign("C07", (ctx.scale * 500_000.0) as u64));
        crate::fuzzrun::run_into(ctx, &mut rep, crate::fuzzrun::Campaign { target: "grammar_struct", prop: "C07", runs_total: (ctx.scale * 1_000_000.0) as u64, max_len: 300, seeds: vec![vec![0u8; 40], (0u8..200).collect()], dict: false });
    }
    quota_check(&mut rep, &["ref:lexically-invalid", "ref:lexes-but-does-not-parse", "ref:parses-but-statically-invalid", "ref:fully-valid", "outcome:ok", "outcome:table-conflict"]);
    rep.finish()
}

// ---------------------------------------------------------------------------
// C14

fn canon(text: &str) -> String {
    match outcome::generate(text) {
        Outcome::Ok(s) => format!("OK\n{s}"),
        other => format!("{other:?}"),
    }
}

pub fn c14_judge(text: &str, fresh_threads: usize) -> Result<(&'static str, usize), Failure> {
    let case = text_case(text);
    let base = canon(text);
    let differ = |who: &str, other: &str| -> Failure {
        let at = base.bytes().zip(other.bytes()).position(|(a, b)| a != b).unwrap_or(base.len().min(other.len()));
        let ctxt = |s: &str| s.get(at.saturating_sub(60)..(at + 60).min(s.len())).unwrap_or("").to_string();
        Failure::new(
            "nondeterministic",
            format!("{who} returned a different result for the same text (first difference at byte {at}):\n  first : …{}…\n  second: …{}…", ctxt(&base), ctxt(other)),
            case.clone(),
        )
    };
    // repeated calls on this thread (RandomState keys are incremented per map)
    for _ in 0..2 {
        let again = canon(text);
        if again != base {
            return Err(differ("a repeated call on the same thread", &again));
        }
    }
    // fresh threads: std's RandomState keys are per-thread random
    let results: Vec<String> = std::thread::scope(|sc| {
        let hs: Vec<_> = (0..fresh_threads).map(|_| sc.spawn(|| canon(text))).collect();
        hs.into_iter().map(|h| h.join().unwrap_or_else(|_| "<thread panicked>".into())).collect()
    });
    for r in &results {
        if *r != base {
            return Err(differ("a call on a freshly spawned thread (different hash-map seed)", r));
        }
    }
    let stage = if base.starts_with("OK\n") {
        "ok"
    } else if base.starts_with("TableConflict") {
        "table-conflict"
    } else if base.starts_with("Panic") {
        "panic"
    } else if base.starts_with("Lex") {
        "lex-error"
    } else if base.starts_with("Parse") {
        "parse-error"
    } else {
        "validation-error"
    };
    let states = base.matches("\n    S").count().max(base.matches("State {").count());
    Ok((stage, states))
}

fn c14_nontrivial(stage: &str, states: usize, canon_len: usize) -> bool {
    match stage {
        "ok" | "table-conflict" => states >= 12,
        "validation-error" => canon_len > 40, // carries >= 2 positions / a name and positions
        _ => false,
    }
}

fn c14_test(raw: &RawAny, st: &mut Stats) -> Result<(), Failure> {
    let (text, fam) = any_text(raw);
    st.class(fam);
    text_size_classes(&text, st);
    let (stage, states) = c14_judge(&text, 4)?;
    st.class(&format!("outcome:{stage}"));
    if c14_nontrivial(stage, states, 64) && (stage != "validation-error" || text.len() > 40) {
        st.nontrivial(&text);
        if st.want_sample() && stage != "validation-error" {
            st.sample(json!({"text": text, "outcome": stage, "states": states}));
        }
    }
    Ok(())
}

const C14_FAMILIES: &[u8] = &[0, 0, 0, 0, 1, 3];

fn raw_c14() -> impl Strategy<Value = RawAny> {
    (
        raw_text(C14_FAMILIES),
        proptest::collection::vec((0u8..16, any::<u16>(), any::<u16>()), 0..=4),
        0u8..4,
        prop::bool::weighted(0.2),
    )
        .prop_map(|(mut text, mut injections, mode, collapse)| {
            // bias towards larger grammars: more hash buckets, order differences more likely
            if text.grammar.source & 1 == 0 && text.grammar.nts.len() < 4 {
                text.grammar.source |= 1;
            }
            match mode {
                // no static violation
                0 => injections.clear(),
                // several violations of the SAME kind: whichever of them a hash collection yields first would be reported
                1 | 2 => {
                    if let Some(k) = injections.first().map(|x| x.0) {
                        for i in injections.iter_mut() {
                            i.0 = k;
                        }
                    }
                }
                // independent violations
                _ => {}
            }
            // a quarter of the violation-free cases under an adversarial naming: the choice of fresh helper names
            // must not depend on the iteration order of the identifier set
            let adversarial = mode == 0 && text.soup.first().map_or(false, |x| x % 2 == 0);
            if adversarial {
                text.family = 0;
                text.grammar.source |= 2;
            }
            RawAny { text, injections, collapse, adversarial }
        })
}

fn c14_processes(ctx: &Ctx, rep: &mut Report) {
    let n = ctx.budget(400, 8_000) as usize;
    let vals = generate_values(&raw_c14(), n, ctx.seed ^ 0xC14);
    let mut texts: Vec<String> = vals.iter().map(|r| any_text(r).0).collect();
    for s in crate::gen::seeds() {
        texts.push(s.src.clone());
    }
    let mut st = Stats::default();
    let mut fails = vec![];
    let here: Vec<String> = texts.iter().map(|t| format!("{:016x}", hash_of(&canon(t)))).collect();
    for p in 0..3 {
        match run_in_child(ctx, "c14", &texts, Duration::from_secs(300)) {
            ChildVerdict::AllDone(res) => {
                for (i, r) in res.iter().enumerate() {
                    st.evaluations += 1;
                    if *r != here[i] {
                        fails.push(Failure::new(
                            "nondeterministic-across-processes",
                            format!("child process #{p} returned a different result (hash {r}) than this process ({}) for the same text", here[i]),
                            text_case(&texts[i]),
                        ));
                        break;
                    }
                    if p == 0 && texts[i].len() > 60 {
                        st.nontrivial(&texts[i]);
                    }
                }
                st.class("process-runs");
            }
            ChildVerdict::Died(k, how) => fails.push(Failure::internal("child-died", format!("child died ({how}) on input {k} (C07 judges that)"), text_case(&texts[k.min(texts.len() - 1)]))),
            ChildVerdict::Timeout(_) => fails.push(Failure::internal("watchdog", "child exceeded 300 s".into(), Value::Null)),
            ChildVerdict::Broken(e) => fails.push(Failure::internal("child-engine", e, Value::Null)),
        }
    }
    rep.absorb("E4-child-processes", RunOutcome { stats: st, failures: fails });
}

pub fn c14_replay(case: &Value) -> Result<(), Failure> {
    // many more samples than in the search: the failing seed combination is not reproducible by construction
    let text = case_text(case)?;
    for _ in 0..50 {
        c14_judge(&text, 8)?;
    }
    Ok(())
}

pub const C14_RULE: &str = "texts of every outcome class (Ok, each validation error, conflicts, lex and parse errors), biased to larger grammars (seed grammars + edits incl. the repository's 24-nonterminal kiki.kiki): 3 calls on the runner thread + 4 calls on freshly spawned threads (std RandomState keys are per-thread random and incremented per map) must give byte-identical RustSrc / identical Debug rendering of the error; a sample plus all seed files is also run in 3 fresh child processes and compared by hash. Non-trivial = Ok/conflict with >= 12 states, or a validation error on a text > 40 bytes; distinct = the text.";

pub fn c14_run(ctx: &Ctx) -> i32 {
    let mut rep = Report::new(ctx, C14_RULE);
    rep.assumptions = vec![
        "std offers no way to set RandomState keys; fresh threads and fresh processes are sampled instead (>= 8 key sets per text in-process); an order dependence that needs a specific collision pattern may need many samples".into(),
    ];
    regress(ctx, &mut rep, "C14", c14_replay);
    let out = run_sharded(ctx, "C14", ctx.budget(40_000, 300_000), raw_c14, c14_test);
    rep.absorb("E1-proptest-threads", out);
    c14_processes(ctx, &mut rep);
    if ctx.tier == Tier::Thorough {
        crate::fuzzrun::run_into(ctx, &mut rep, crate::fuzzrun::Campaign { target: "grammar_struct", prop: "C14", runs_total: (ctx.scale * 300_000.0) as u64, max_len: 300, seeds: vec![vec![1u8; 40], (0u8..200).collect()], dict: false });
    }
    quota_check(&mut rep, &["outcome:ok", "outcome:table-conflict", "outcome:validation-error"]);
    rep.finish()
}

// ---------------------------------------------------------------------------
// worker side (child process)

pub fn worker(args: &[String]) -> i32 {
    if args.len() < 2 {
        return 2;
    }
    let kind = args[0].as_str();
    let Ok(txt) = std::fs::read_to_string(&args[1]) else { return 2 };
    let Ok(texts) = serde_json::from_str::<Vec<String>>(&txt) else { return 2 };
    // bound memory so that a runaway allocation kills this child, not the machine
    unsafe {
        let lim = libc::rlimit { rlim_cur: 8 << 30, rlim_max: 8 << 30 };
        libc::setrlimit(libc::RLIMIT_AS, &lim);
    }
    crate::engine::install_quiet_panic_hook();
    let stdout = std::io::stdout();
    for (i, t) in texts.iter().enumerate() {
        {
            let mut o = stdout.lock();
            let _ = writeln!(o, "BEGIN {i}");
            let _ = o.flush();
        }
        let line = match kind {
            "c07" => match outcome::generate(t) {
                Outcome::Panic(p) => format!("panic {}", p.replace('\n', " ")),
                o => o.stage().to_string(),
            },
            "c14" => format!("{:016x}", hash_of(&canon(t))),
            _ => return 2,
        };
        let mut o = stdout.lock();
        let _ = writeln!(o, "END {i} {line}");
        let _ = o.flush();
    }
    0
}
