//! G1 — grammar generators. A `RawGrammar` is made of small integers and
//! vectors so that proptest's built-in shrinking applies; `build` is total and
//! maps every raw value to a well-formed `Spec`. The same raw value can be
//! decoded from fuzzer bytes (`RawGrammar::from_bytes`).

use crate::cfg::{Act, Analysis};
use crate::spec::*;
use proptest::collection::vec;
use proptest::prelude::*;
use std::sync::OnceLock;

pub const MAX_NT: usize = 7;
pub const MAX_T: usize = 6;
pub const MAX_VARIANTS: usize = 4;
pub const MAX_MANY_VARIANTS: usize = 12;
pub const MAX_FIELDS: usize = 4;
pub const MAX_WIDE_FIELDS: usize = 14;
pub const MAX_EDITS: usize = 6;

#[derive(Clone, Debug, PartialEq, Eq)]
pub struct RawFs {
    pub form: u8,
    /// < 208: at most MAX_FIELDS fields; < 240: at most 9; otherwise up to MAX_WIDE_FIELDS
    pub wide: u8,
    pub fields: Vec<(u16, bool)>,
}

#[derive(Clone, Debug, PartialEq, Eq)]
pub struct RawNt {
    pub is_enum: bool,
    pub variants: Vec<RawFs>,
}

#[derive(Clone, Debug, PartialEq, Eq)]
pub struct RawGrammar {
    /// 0 random, 1 seed+edits, 2 random+repair, 3 seed+edits+repair
    pub source: u8,
    pub seed_ix: u16,
    pub n_terms: u8,
    pub nts: Vec<RawNt>,
    pub start: u16,
    pub edits: Vec<(u8, u16, u16, u16)>,
    pub repair: u8,
    pub slots: (u16, u16),
}

pub fn raw_fs() -> impl Strategy<Value = RawFs> {
    (0u8..3, any::<u8>(), vec((any::<u16>(), prop::bool::weighted(0.7)), 0..=MAX_WIDE_FIELDS)).prop_map(|(form, wide, fields)| RawFs { form, wide, fields })
}

pub fn raw_nt() -> impl Strategy<Value = RawNt> {
    // mostly at most MAX_VARIANTS variants; 1 enum in 12 has up to MAX_MANY_VARIANTS (two-digit variant / rule indices within one type)
    (any::<bool>(), prop_oneof![11 => vec(raw_fs(), 0..=MAX_VARIANTS), 1 => vec(raw_fs(), (MAX_VARIANTS + 1)..=MAX_MANY_VARIANTS)])
        .prop_map(|(is_enum, variants)| RawNt { is_enum, variants })
}

pub fn raw_grammar() -> impl Strategy<Value = RawGrammar> {
    (
        0u8..4,
        any::<u16>(),
        // mostly few terminals / nonterminals; 1 in 6 up to 14 / 12 (two-digit column, kind and method indices)
        prop_oneof![5 => 0u8..=(MAX_T as u8), 1 => (MAX_T as u8 + 1)..=14u8],
        prop_oneof![5 => vec(raw_nt(), 1..=MAX_NT), 1 => vec(raw_nt(), (MAX_NT + 1)..=12)],
        any::<u16>(),
        vec((0u8..12, any::<u16>(), any::<u16>(), any::<u16>()), 0..=MAX_EDITS),
        0u8..=4,
        (any::<u16>(), any::<u16>()),
    )
        .prop_map(|(source, seed_ix, n_terms, nts, start, edits, repair, slots)| RawGrammar {
            source,
            seed_ix,
            n_terms,
            nts,
            start,
            edits,
            repair,
            slots,
        })
}

/// Monotone index mapping (never `%`, so that shrinking an integer moves to an
/// earlier choice).
pub fn pick(i: u16, len: usize) -> usize {
    if len == 0 {
        0
    } else {
        (i as usize * len) >> 16
    }
}

fn sym_of(i: u16, nt: usize, nn: usize) -> Sym {
    let k = pick(i, nt + nn);
    if k < nt {
        Sym::T(k)
    } else {
        Sym::N(k - nt)
    }
}

fn build_random(raw: &RawGrammar) -> Spec {
    let nn = raw.nts.len().max(1);
    let nt = raw.n_terms as usize;
    let nts = raw
        .nts
        .iter()
        .map(|n| SNt {
            is_enum: n.is_enum,
            variants: n
                .variants
                .iter()
                .map(|v| {
                    let mut fs = SFs {
                        form: match v.form {
                            0 => Form::Empty,
                            1 => Form::Named,
                            _ => Form::Tuple,
                        },
                        fields: if v.form == 0 {
                            vec![]
                        } else {
                            let cap = if v.wide < 208 {
                                MAX_FIELDS
                            } else if v.wide < 240 {
                                9
                            } else {
                                MAX_WIDE_FIELDS
                            };
                            v.fields.iter().take(cap).map(|(s, u)| SField { sym: sym_of(*s, nt, nn), used: *u }).collect()
                        },
                    };
                    fs.fix_form();
                    fs
                })
                .collect(),
        })
        .collect();
    let mut spec = Spec {
        n_terms: nt,
        nts,
        start: pick(raw.start, nn),
        slots: (pick(raw.slots.0, nn + 1), pick(raw.slots.1, nn + 1)),
    };
    spec.normalize();
    spec
}

// ---------------------------------------------------------------------------
// Seed grammars

pub struct Seed {
    pub name: String,
    pub src: String,
    pub spec: Spec,
}

pub fn corpus_dir() -> String {
    std::env::var("VERIF_ROOT").unwrap_or_else(|_| concat!(env!("CARGO_MANIFEST_DIR"), "/..").to_string())
}

pub fn seeds() -> &'static Vec<Seed> {
    static SEEDS: OnceLock<Vec<Seed>> = OnceLock::new();
    SEEDS.get_or_init(|| {
        let dir = format!("{}/corpus/grammars", corpus_dir());
        let mut names: Vec<String> = std::fs::read_dir(&dir)
            .unwrap_or_else(|e| panic!("cannot read {dir}: {e}"))
            .filter_map(|e| e.ok())
            .map(|e| e.file_name().to_string_lossy().to_string())
            .filter(|n| n.ends_with(".kiki"))
            .collect();
        names.sort();
        let mut out = vec![];
        for n in names {
            let src = std::fs::read_to_string(format!("{dir}/{n}")).unwrap();
            let toks = crate::reftok::tokenize(&src).unwrap_or_else(|e| panic!("seed {n}: lex {e:?}"));
            let file = crate::refparse::read_file(&toks).unwrap_or_else(|_| panic!("seed {n}: syntax"));
            let (spec, _) = from_rfile(&file).unwrap_or_else(|| panic!("seed {n}: not well-formed"));
            out.push(Seed { name: n, src, spec });
        }
        assert!(!out.is_empty(), "no seed grammars in {dir}");
        out
    })
}

// ---------------------------------------------------------------------------
// Edits

fn all_field_sites(spec: &Spec) -> Vec<(usize, usize, usize)> {
    let mut v = vec![];
    for (i, n) in spec.nts.iter().enumerate() {
        for (j, var) in n.variants.iter().enumerate() {
            for k in 0..var.fields.len() {
                v.push((i, j, k));
            }
        }
    }
    v
}

fn all_variant_sites(spec: &Spec) -> Vec<(usize, usize)> {
    let mut v = vec![];
    for (i, n) in spec.nts.iter().enumerate() {
        for j in 0..n.variants.len() {
            v.push((i, j));
        }
    }
    v
}

pub fn apply_edit(spec: &mut Spec, e: (u8, u16, u16, u16)) {
    let (kind, a, b, c) = e;
    let nn = spec.nts.len();
    let nt = spec.n_terms;
    match kind {
        0 => {
            // add a rule (variant) to some nonterminal: copy of an existing variant with one symbol changed / appended
            let i = pick(a, nn);
            let n = &mut spec.nts[i];
            if !n.is_enum {
                n.is_enum = true;
            }
            if n.variants.len() < 6 {
                let mut v = if n.variants.is_empty() { SFs::empty() } else { n.variants[pick(b, n.variants.len())].clone() };
                if v.fields.len() < 6 {
                    let s = sym_of(c, nt, nn);
                    let at = pick(b.rotate_left(5), v.fields.len() + 1);
                    v.fields.insert(at, SField { sym: s, used: c & 1 == 0 });
                }
                v.fix_form();
                n.variants.push(v);
            }
        }
        1 => {
            // remove a variant
            let sites = all_variant_sites(spec);
            if !sites.is_empty() {
                let (i, j) = sites[pick(a, sites.len())];
                if spec.nts[i].is_enum {
                    spec.nts[i].variants.remove(j);
                }
            }
        }
        2 => {
            // replace a symbol
            let sites = all_field_sites(spec);
            if !sites.is_empty() {
                let (i, j, k) = sites[pick(a, sites.len())];
                spec.nts[i].variants[j].fields[k].sym = sym_of(b, nt, nn);
            }
        }
        3 => {
            // insert a nullable nonterminal somewhere in a right-hand side (middle preferred)
            let sets = spec.cfg().sets();
            let nullable: Vec<usize> = (0..nn).filter(|n| sets.nullable[*n]).collect();
            let sites = all_variant_sites(spec);
            if !nullable.is_empty() && !sites.is_empty() {
                let (i, j) = sites[pick(a, sites.len())];
                let v = &mut spec.nts[i].variants[j];
                if v.fields.len() < 6 {
                    let at = pick(b, v.fields.len() + 1);
                    v.fields.insert(at, SField { sym: Sym::N(nullable[pick(c, nullable.len())]), used: c & 1 == 0 });
                    v.fix_form();
                }
            }
        }
        4 => {
            // delete a field
            let sites = all_field_sites(spec);
            if !sites.is_empty() {
                let (i, j, k) = sites[pick(a, sites.len())];
                spec.nts[i].variants[j].fields.remove(k);
                spec.nts[i].variants[j].fix_form();
            }
        }
        5 => {
            // toggle struct <-> enum
            let i = pick(a, nn);
            let n = &mut spec.nts[i];
            if n.is_enum {
                if n.variants.len() == 1 {
                    n.is_enum = false;
                }
            } else {
                n.is_enum = true;
            }
        }
        6 => {
            // toggle named <-> tuple
            let sites = all_variant_sites(spec);
            if !sites.is_empty() {
                let (i, j) = sites[pick(a, sites.len())];
                let v = &mut spec.nts[i].variants[j];
                v.form = match v.form {
                    Form::Named => Form::Tuple,
                    Form::Tuple => Form::Named,
                    Form::Empty => Form::Empty,
                };
            }
        }
        7 => {
            // toggle used <-> `_`
            let sites = all_field_sites(spec);
            if !sites.is_empty() {
                let (i, j, k) = sites[pick(a, sites.len())];
                let f = &mut spec.nts[i].variants[j].fields[k];
                f.used = !f.used;
            }
        }
        8 => {
            // add a terminal and use it somewhere
            if nt < 10 {
                spec.n_terms += 1;
                let sites = all_variant_sites(spec);
                if !sites.is_empty() {
                    let (i, j) = sites[pick(a, sites.len())];
                    let v = &mut spec.nts[i].variants[j];
                    if v.fields.len() < 6 {
                        let at = pick(b, v.fields.len() + 1);
                        v.fields.insert(at, SField { sym: Sym::T(nt), used: c & 1 == 0 });
                        v.fix_form();
                    }
                }
            }
        }
        9 => {
            // add a nonterminal (copy of an existing one) and reference it from somewhere
            if nn < 10 {
                let src = pick(a, nn);
                let copy = spec.nts[src].clone();
                spec.nts.push(copy);
                let sites = all_variant_sites(spec);
                if !sites.is_empty() {
                    let (i, j) = sites[pick(b, sites.len())];
                    let v = &mut spec.nts[i].variants[j];
                    if v.fields.len() < 6 {
                        let at = pick(c, v.fields.len() + 1);
                        v.fields.insert(at, SField { sym: Sym::N(nn), used: c & 1 == 0 });
                        v.fix_form();
                    }
                }
            }
        }
        10 => {
            // change the start symbol
            spec.start = pick(a, nn);
        }
        _ => {
            // swap two nonterminal declarations (renumbers symbols, rule indices and columns)
            let i = pick(a, nn);
            let j = pick(b, nn);
            if i != j {
                spec.nts.swap(i, j);
                let map = |s: &mut Sym| {
                    if let Sym::N(n) = s {
                        if *n == i {
                            *n = j;
                        } else if *n == j {
                            *n = i;
                        }
                    }
                };
                for n in spec.nts.iter_mut() {
                    for v in n.variants.iter_mut() {
                        for f in v.fields.iter_mut() {
                            map(&mut f.sym);
                        }
                    }
                }
                if spec.start == i {
                    spec.start = j;
                } else if spec.start == j {
                    spec.start = i;
                }
            }
        }
    }
    spec.normalize();
}

/// Conflict repair guided by the reference: delete a rule that takes part in
/// the first LALR conflict, up to `rounds` times. Used only to steer
/// generation; the verdict for the final grammar is computed independently.
pub fn repair(spec: &mut Spec, rounds: u8) {
    for _ in 0..rounds {
        let cfg = spec.cfg();
        let Ok(a) = Analysis::new(&cfg) else { return };
        let conflicts = a.lalr_tables.conflicts();
        let Some((_, _, acts)) = conflicts.first() else { return };
        let mut done = false;
        for act in acts.iter().rev() {
            if let Act::Reduce(r) = act {
                if spec.remove_rule(*r) {
                    done = true;
                    break;
                }
            }
        }
        spec.normalize();
        if !done {
            return;
        }
    }
}

#[derive(Clone, Copy, Debug, PartialEq, Eq, PartialOrd, Ord, Hash)]
pub enum Source {
    Random,
    SeedEdits,
    RandomRepair,
    SeedEditsRepair,
}

// ---------------------------------------------------------------------------
// Scaled families: structured grammars whose size is a parameter. Random grammars stay small (<= 12 nonterminals,
// <= 14 terminals, a few dozen states); these reach the sizes at which an index type, a packed field, a textual
// sort of numbered names or a per-row buffer would give out: > 64 / > 100 terminals, > 128 nonterminals,
// > 256 states, rules of > 32 symbols, enums with > 100 variants.

pub const SCALED_KINDS: usize = 7;
/// largest parameter per kind (chosen so that kiki, the reference and rustc stay within ~1 s / ~10 s)
pub const SCALED_MAX: [usize; SCALED_KINDS] = [24, 300, 120, 100, 60, 40, 60];
pub const SCALED_NAMES: [&str; SCALED_KINDS] =
    ["expression-levels", "unit-chain", "many-terminals", "statement-kinds", "optional-layers", "long-rule", "many-declarations"];

fn fs(bits: &mut u32, syms: &[Sym]) -> SFs {
    // the form and the used/skipped mask come from a bit stream so that every family also varies its fieldsets
    let mut take = |n: u32| {
        let v = *bits % n;
        *bits = bits.rotate_right(3) ^ 0x9E37_79B9;
        v
    };
    let form = if syms.is_empty() { Form::Empty } else if take(2) == 0 { Form::Named } else { Form::Tuple };
    let fields = syms.iter().map(|s| SField { sym: *s, used: take(4) != 0 }).collect();
    SFs { form, fields }
}

pub fn scaled_spec(kind: usize, k: usize, seed: u16) -> Spec {
    use Sym::{N, T};
    let k = k.clamp(1, SCALED_MAX[kind % SCALED_KINDS]);
    let mut bits = (seed as u32).wrapping_mul(0x0101_0101).wrapping_add(12345);
    let b = &mut bits;
    let (n_terms, nts, start) = match kind % SCALED_KINDS {
        0 => {
            // E_i -> E_i op_i E_{i+1} | E_{i+1}   (i < k);  Atom -> num | ( E_0 )
            // terminals: op_0..op_{k-1}, num = k, lpar = k+1, rpar = k+2; nonterminals E_0..E_{k-1}, Atom = k
            let mut nts = vec![];
            for i in 0..k {
                nts.push(SNt { is_enum: true, variants: vec![fs(b, &[N(i), T(i), N(i + 1)]), fs(b, &[N(i + 1)])] });
            }
            nts.push(SNt { is_enum: true, variants: vec![fs(b, &[T(k)]), fs(b, &[T(k + 1), N(0), T(k + 2)])] });
            (k + 3, nts, 0)
        }
        1 => {
            // S -> B A_0; B -> t0; A_i -> A_{i+1}; A_{k-1} -> t0 | t1 A_0      (S = 0, B = 1, A_i = i + 2)
            // the chain is declared top-down and its head follows another nonterminal, so FIRST(A_0) is really
            // consulted and needs k passes of a fixpoint that sweeps the rules in declaration order
            let mut nts = vec![
                SNt { is_enum: false, variants: vec![fs(b, &[N(1), N(2)])] },
                SNt { is_enum: false, variants: vec![fs(b, &[T(0)])] },
            ];
            for i in 0..k - 1 {
                nts.push(SNt { is_enum: false, variants: vec![fs(b, &[N(i + 3)])] });
            }
            nts.push(SNt { is_enum: true, variants: vec![fs(b, &[T(0)]), fs(b, &[T(1), N(2)])] });
            (2, nts, 0)
        }
        2 => {
            // List -> eps | List Item; Item -> t_0 | ... | t_{k-1}
            let list = SNt { is_enum: true, variants: vec![fs(b, &[]), fs(b, &[N(0), N(1)])] };
            let item = SNt { is_enum: true, variants: (0..k).map(|i| fs(b, &[T(i)])).collect() };
            (k, vec![list, item], 0)
        }
        3 => {
            // Prog -> eps | Prog Stmt; Stmt -> kw_i Expr semi; Expr -> num | Expr plus num
            // terminals kw_0..kw_{k-1}, semi = k, num = k+1, plus = k+2
            let prog = SNt { is_enum: true, variants: vec![fs(b, &[]), fs(b, &[N(0), N(1)])] };
            let stmt = SNt { is_enum: true, variants: (0..k).map(|i| fs(b, &[T(i), N(2), T(k)])).collect() };
            let expr = SNt { is_enum: true, variants: vec![fs(b, &[T(k + 1)]), fs(b, &[N(2), T(k + 2), T(k + 1)])] };
            (k + 3, vec![prog, stmt, expr], 0)
        }
        4 => {
            // L_i -> Opt_i L_{i+1}; Opt_i -> eps | t_i; L_k -> end      (L_i = 2i, Opt_i = 2i+1, L_k = 2k)
            let mut nts = vec![];
            for i in 0..k {
                nts.push(SNt { is_enum: false, variants: vec![fs(b, &[N(2 * i + 1), N(2 * i + 2)])] });
                nts.push(SNt { is_enum: true, variants: vec![fs(b, &[]), fs(b, &[T(i)])] });
            }
            nts.push(SNt { is_enum: false, variants: vec![fs(b, &[T(k)])] });
            (k + 1, nts, 0)
        }
        6 => {
            // S -> N_1 | ... | N_k; N_i -> t_i t_i?: a file with k + 3 items, k terminals, an enum with k variants — long lists
            // of every kind the front end flattens (items, variants, terminal variants), small automaton
            let mut nts = vec![SNt { is_enum: true, variants: (0..k).map(|i| fs(b, &[N(i + 1)])).collect() }];
            for i in 0..k {
                nts.push(SNt { is_enum: false, variants: vec![fs(b, &[T(i), T((i + 1) % k)])] });
            }
            (k, nts, 0)
        }
        _ => {
            // S -> t0 A t1 A t0 A ... (k symbols); A -> t2 | t2 A
            let syms: Vec<Sym> = (0..k).map(|i| if i % 2 == 1 { N(1) } else { T((i / 2) % 2) }).collect();
            let s = SNt { is_enum: false, variants: vec![fs(b, &syms)] };
            let a = SNt { is_enum: true, variants: vec![fs(b, &[T(2)]), fs(b, &[T(2), N(1)])] };
            (3, vec![s, a], 0)
        }
    };
    let mut spec = Spec { n_terms, nts, start, slots: (0, 0) };
    spec.normalize();
    spec
}

/// Seed-based cases whose `seed_ix` falls into the top 1/48 of its range use a scaled family instead of a corpus
/// seed; the size is skewed towards small values (quadratic), the maximum is reached in ~1 of 12 such cases.
pub fn scaled_choice(raw: &RawGrammar) -> Option<(usize, usize)> {
    if raw.seed_ix < 0xFAAB {
        return None;
    }
    let kind = (raw.seed_ix as usize) % SCALED_KINDS;
    let x = raw.start as u64;
    let max = SCALED_MAX[kind] as u64;
    let k = 1 + ((x * x >> 16) * max >> 16) as usize;
    Some((kind, if raw.start >= 0xEA00 { max as usize } else { k }))
}

pub fn build(raw: &RawGrammar) -> (Spec, Source) {
    let source = match raw.source & 3 {
        0 => Source::Random,
        1 => Source::SeedEdits,
        2 => Source::RandomRepair,
        _ => Source::SeedEditsRepair,
    };
    let mut spec = match source {
        Source::Random | Source::RandomRepair => build_random(raw),
        Source::SeedEdits | Source::SeedEditsRepair => {
            let s = seeds();
            let mut spec = match scaled_choice(raw) {
                Some((kind, k)) => scaled_spec(kind, k, raw.slots.0 ^ raw.slots.1),
                None => s[pick(raw.seed_ix, s.len())].spec.clone(),
            };
            spec.slots = (pick(raw.slots.0, spec.nts.len() + 1), pick(raw.slots.1, spec.nts.len() + 1));
            spec
        }
    };
    // scaled families beyond a small size are taken as they are: an unlucky edit costs kiki minutes (45 statement
    // kinds with one edit: 126 s; 100 with three: 40 s — the conflicting automaton explodes before the conflict is
    // seen), and conflict repair re-analyses the grammar once per round
    let big_scaled = matches!(source, Source::SeedEdits | Source::SeedEditsRepair) && scaled_choice(raw).map_or(false, |(_, k)| k > 12);
    if matches!(source, Source::SeedEdits | Source::SeedEditsRepair) && !big_scaled {
        for e in &raw.edits {
            apply_edit(&mut spec, *e);
        }
    }
    if matches!(source, Source::RandomRepair | Source::SeedEditsRepair) && !big_scaled {
        repair(&mut spec, raw.repair.max(1));
    }
    spec.normalize();
    (spec, source)
}

// ---------------------------------------------------------------------------
// Decoding from fuzzer bytes (hand-written; `arbitrary`'s derive is not available)

pub struct Bytes<'a> {
    pub data: &'a [u8],
    pub pos: usize,
}

impl<'a> Bytes<'a> {
    pub fn new(data: &'a [u8]) -> Self {
        Bytes { data, pos: 0 }
    }
    pub fn u8(&mut self) -> u8 {
        let b = self.data.get(self.pos).copied().unwrap_or(0);
        self.pos += 1;
        b
    }
    pub fn u16(&mut self) -> u16 {
        // one byte spread over the 16-bit range keeps inputs short and mutations meaningful
        let b = self.u8() as u16;
        b << 8 | b
    }
    /// two bytes: the full 16-bit range (choice vectors of the text generators)
    pub fn u16_full(&mut self) -> u16 {
        let hi = self.u8() as u16;
        let lo = self.u8() as u16;
        hi << 8 | lo
    }
    pub fn choices(&mut self, max: usize) -> Vec<u16> {
        let n = self.len(max);
        (0..n).map(|_| self.u16_full()).collect()
    }
    pub fn len(&mut self, max: usize) -> usize {
        (self.u8() as usize) % (max + 1)
    }
    pub fn exhausted(&self) -> bool {
        self.pos >= self.data.len()
    }
}

impl RawGrammar {
    pub fn from_bytes(b: &mut Bytes) -> RawGrammar {
        let source = b.u8() & 3;
        // the scaled families are left to the proptest engine: coverage guidance gravitates towards the largest
        // grammars (most new edges), which cost kiki 0.1 .. 2 s each and starve the campaign
        let seed_ix = b.u16().min(0xFA00);
        let n_terms = (b.u8() as usize % 15) as u8;
        let n_nts = 1 + b.len(11);
        let mut nts = vec![];
        for _ in 0..n_nts {
            let is_enum = b.u8() & 1 == 1;
            let nv = match b.u8() {
                x if x < 236 => x as usize % (MAX_VARIANTS + 1),
                x => MAX_VARIANTS + 1 + (x as usize - 236) % (MAX_MANY_VARIANTS - MAX_VARIANTS),
            };
            let mut variants = vec![];
            for _ in 0..nv {
                let form = b.u8() % 3;
                let wide = b.u8();
                let nf = b.len(MAX_WIDE_FIELDS);
                let mut fields = vec![];
                for _ in 0..nf {
                    let s = b.u16();
                    let u = b.u8() & 3 != 0;
                    fields.push((s, u));
                }
                variants.push(RawFs { form, wide, fields });
            }
            nts.push(RawNt { is_enum, variants });
        }
        let start = b.u16();
        let ne = b.len(MAX_EDITS);
        let mut edits = vec![];
        for _ in 0..ne {
            edits.push((b.u8() % 12, b.u16(), b.u16(), b.u16()));
        }
        let repair = b.u8() % 5;
        let slots = (b.u16(), b.u16());
        RawGrammar { source, seed_ix, n_terms, nts, start, edits, repair, slots }
    }
}
