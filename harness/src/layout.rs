//! G3 layouts, G4 attribute texts, G5 payload type expressions — all driven by
//! a `Chooser` over a vector of small integers (so proptest shrinks them).

use crate::ast::*;
use crate::gen::pick;
use crate::reftok;

/// Cyclic reader of a choice vector; an empty vector yields zeros (= the simplest choice everywhere).
pub struct Chooser<'a> {
    v: &'a [u16],
    i: usize,
}

impl<'a> Chooser<'a> {
    pub fn new(v: &'a [u16]) -> Self {
        Chooser { v, i: 0 }
    }
    pub fn next(&mut self) -> u16 {
        if self.v.is_empty() {
            return 0;
        }
        let x = self.v[self.i % self.v.len()];
        // decorrelate successive laps
        let lap = (self.i / self.v.len()) as u16;
        self.i += 1;
        x.wrapping_add(lap.wrapping_mul(0x9E37))
    }
    pub fn pick(&mut self, n: usize) -> usize {
        pick(self.next(), n)
    }
    pub fn is_trivial(&self) -> bool {
        self.v.is_empty()
    }
}

// every non-ASCII White_Space character (char::is_whitespace), plus VT and FF
pub const UNICODE_WS: [char; 21] = [
    '\u{0085}', '\u{00A0}', '\u{1680}', '\u{2000}', '\u{2001}', '\u{2002}', '\u{2003}', '\u{2004}', '\u{2005}', '\u{2006}', '\u{2007}', '\u{2008}',
    '\u{2009}', '\u{200A}', '\u{2028}', '\u{2029}', '\u{202F}', '\u{205F}', '\u{3000}', '\u{000B}', '\u{000C}',
];

pub const COMMENT_BODIES: [&str; 27] = [
    "",
    " plain comment",
    " #[derive(Debug)]",
    "$Foo: () }",
    " é€𝄞 中文",
    "\r",
    " start struct enum terminal _",
    "// nested //",
    " /* not a block */",
    " tab\there",
    "#[",
    " trailing space ",
    "\u{00A0}nbsp",
    " ) ] } ( [ {",
    " \"quoted\" 'c'",
    "/",
    " cr\rstart Foo",
    "\r$x @",
    " x\r#[",
    "\u{2028}struct \u{0085}enum",
    // rare character classes
    " \u{10FFFF}\u{FFFF}\u{FFFD} e\u{0301} İıﬁ ٣ Ａ",
    " \u{0085}\u{000B}\u{000C}\u{001F}\u{200B}\u{FEFF}\u{0}\u{7F} straße",
    // comments that look like something a tool might want to interpret
    "/ outer doc comment",
    "! inner doc comment",
    " kiki: start Foo",
    " @sha256 0000",
    "/// #[derive(Clone)]",
];

#[derive(Clone, Debug, Default)]
pub struct LayoutFeatures {
    pub comments: usize,
    pub crlf: usize,
    pub unicode_ws: usize,
    pub adjacent: usize,
    pub eof_comment: bool,
    pub multibyte_in_comment: bool,
    /// a comment of >= 300 characters somewhere
    pub long_piece: bool,
    /// the first token starts beyond byte 65 536
    pub huge_lead: bool,
}

impl LayoutFeatures {
    pub fn kinds(&self) -> usize {
        (self.comments > 0) as usize
            + (self.crlf > 0) as usize
            + (self.unicode_ws > 0) as usize
            + (self.adjacent > 0) as usize
            + self.eof_comment as usize
    }
}

#[derive(Clone, Debug)]
pub struct Rendered {
    pub text: String,
    /// (start, end) byte span of every atom, in order
    pub spans: Vec<(usize, usize)>,
    pub features: LayoutFeatures,
}

/// Must `a` and `b` be separated for the token list to survive? Decided by the
/// reference tokenizer on the concatenation (construction, not rejection).
pub fn needs_separator(a: &Atom, b: &Atom) -> bool {
    let s = format!("{}{}", a.text, b.text);
    match reftok::tokenize(&s) {
        Ok(t) => !(t.len() == 2 && t[0].kind == a.kind && t[0].text == a.text && t[1].kind == b.kind && t[1].text == b.text),
        Err(_) => true,
    }
}

fn separator(ch: &mut Chooser, must_separate: bool, at_end: bool, feats: &mut LayoutFeatures) -> String {
    let mut s = String::new();
    let pieces = ch.pick(4);
    if pieces == 0 {
        if must_separate {
            s.push(' ');
        } else if !at_end {
            feats.adjacent += 1;
        }
        return s;
    }
    let mut open_comment = false;
    for _ in 0..pieces {
        if open_comment {
            s.push('\n');
            open_comment = false;
        }
        match ch.pick(12) {
            0 | 1 => s.push(' '),
            2 => s.push('\n'),
            3 => {
                s.push_str("\r\n");
                feats.crlf += 1;
            }
            4 => s.push('\t'),
            5 => {
                s.push(UNICODE_WS[ch.pick(UNICODE_WS.len())]);
                feats.unicode_ws += 1;
            }
            6 | 7 | 8 => {
                let body = COMMENT_BODIES[ch.pick(COMMENT_BODIES.len())];
                s.push_str("//");
                // 1 comment in 64 is long (300 or 5000 characters, some of them multi-byte): length thresholds
                match ch.pick(128) {
                    127 => {
                        s.push_str(&"long comment é ".repeat(334));
                        feats.multibyte_in_comment = true;
                        feats.long_piece = true;
                    }
                    126 => {
                        s.push_str(&"c".repeat(300));
                        feats.long_piece = true;
                    }
                    _ => {}
                }
                s.push_str(body);
                if !body.is_ascii() {
                    feats.multibyte_in_comment = true;
                }
                feats.comments += 1;
                open_comment = true;
            }
            9 => s.push_str("  "),
            10 => s.push_str("\n\n"),
            _ => s.push('\r'),
        }
    }
    if open_comment {
        if at_end && ch.pick(2) == 0 {
            feats.eof_comment = true;
        } else if ch.pick(3) == 0 {
            s.push_str("\r\n");
            feats.crlf += 1;
        } else {
            s.push('\n');
        }
    }
    if must_separate && s.starts_with('/') {
        // a comment directly after an atom that ends in `/` would fuse with it
        s.insert(0, ' ');
    }
    s
}

/// Renders a token list under a layout. With an empty choice vector this is the plain one-space layout.
pub fn render(atoms: &[Atom], layout: &[u16]) -> Rendered {
    let mut ch = Chooser::new(layout);
    let mut feats = LayoutFeatures::default();
    let mut text = String::new();
    let mut spans = Vec::with_capacity(atoms.len());
    if layout.is_empty() {
        for (i, a) in atoms.iter().enumerate() {
            if i > 0 {
                text.push(' ');
            }
            spans.push((text.len(), text.len() + a.text.len()));
            text.push_str(&a.text);
        }
        return Rendered { text, spans, features: feats };
    }
    // 1 rendering in 96 starts with > 64 KiB of comment or whitespace: every position in the file exceeds 16 bits
    if ch.pick(96) == 95 {
        match ch.pick(3) {
            0 => {
                text.push_str("//");
                text.push_str(&"x".repeat(66_000));
                text.push('\n');
            }
            1 => {
                text.push_str("//");
                text.push_str(&"é".repeat(33_000));
                text.push_str("\r\n");
            }
            _ => text.push_str(&" \n\t\u{3000}".repeat(11_000)),
        }
        feats.huge_lead = true;
    }
    // leading
    let lead = separator(&mut ch, false, atoms.is_empty(), &mut feats);
    text.push_str(&lead);
    if lead.is_empty() {
        feats.adjacent = feats.adjacent.saturating_sub(1);
    }
    for (i, a) in atoms.iter().enumerate() {
        spans.push((text.len(), text.len() + a.text.len()));
        text.push_str(&a.text);
        let last = i + 1 == atoms.len();
        let must = !last && needs_separator(a, &atoms[i + 1]);
        let sep = separator(&mut ch, must, last, &mut feats);
        if sep.starts_with('/') && a.text.ends_with('/') {
            // a comment directly after an atom that ends in `/` would fuse with it
            text.push(' ');
        }
        text.push_str(&sep);
    }
    Rendered { text, spans, features: feats }
}

// ---------------------------------------------------------------------------
// G4 attributes

pub const ATTR_FILLER: [&str; 58] = [
    // rare classes (all legal inside an attribute, which is copied verbatim)
    "\u{10FFFF}", "\u{FFFF}", "\u{FFFD}", "e\u{0301}", "İ", "ı", "ﬁ", "٣", "Ａ", "\u{0085}", "\u{000B}", "\u{000C}", "\u{001F}", "\u{200B}", "\u{FEFF}", "\u{0}", "\u{7F}",
    "straße",
    "a", "derive", "Debug", "Clone", " ", ", ", "=", "\"", "'", "/", "//", "#", "$", ".", "!", "-", "::", "<", ">", "|", "\\", "\t", "\r", "é", "€", "𝄞",
    "ß", "中", "\u{00A0}", "\u{2028}", "0", "_", "cfg", "doc", "\"]\"", "x y", ";", "?", "@", "~",
];

pub const MARK: char = '§';

fn attr_body(ch: &mut Chooser, depth: usize, out: &mut String, max_depth: &mut usize) {
    let pieces = ch.pick(5);
    for _ in 0..pieces {
        if depth < 6 && ch.pick(3) == 0 {
            let (o, c) = [('(', ')'), ('[', ']'), ('{', '}')][ch.pick(3)];
            out.push(o);
            *max_depth = (*max_depth).max(depth + 1);
            attr_body(ch, depth + 1, out, max_depth);
            out.push(c);
        } else {
            out.push_str(ATTR_FILLER[ch.pick(ATTR_FILLER.len())]);
        }
    }
}

/// Matching runs of opening and closing brackets of mixed kinds, 100 .. 20 000 deep (depth thresholds: a nesting
/// counter of 8 or 16 bits, a recursion limit).
pub fn deep_nest(ch: &mut Chooser) -> (String, String) {
    let d = [100usize, 254, 255, 256, 300, 1000, 20_000][ch.pick(7)];
    let kinds = [('(', ')'), ('[', ']'), ('{', '}')];
    let stride = 1 + ch.pick(3);
    let mut open = String::with_capacity(d);
    let mut close = String::with_capacity(d);
    for i in 0..d {
        open.push(kinds[(i / stride) % 3].0);
    }
    for i in (0..d).rev() {
        close.push(kinds[(i / stride) % 3].1);
    }
    (open, close)
}

/// A well-formed attribute carrying the unique marker `§<id>§`. Returns (text, nesting depth).
pub fn gen_attr(ch: &mut Chooser, id: usize) -> (String, usize) {
    if ch.pick(96) == 95 {
        // 1 attribute in 96 nests its brackets 100 .. 20 000 deep
        let (open, close) = deep_nest(ch);
        let d = open.len();
        return (format!("#[a{open}{MARK}{id}{MARK}{close}]"), d + 1);
    }
    let mut s = String::from("#[");
    let mut depth = 0;
    // "\"]\"" in the filler would unbalance the brackets as kiki counts them; it is only used inside nested brackets below
    let mut body = String::new();
    attr_body(ch, 0, &mut body, &mut depth);
    // kiki counts every bracket character, quoted or not: rebalance by construction
    let body = rebalance(&body);
    let at = ch.pick(3);
    if at == 0 {
        s.push_str(&format!("{MARK}{id}{MARK}"));
        s.push_str(&body);
    } else {
        s.push_str(&body);
        s.push_str(&format!("{MARK}{id}{MARK}"));
    }
    s.push(']');
    (s, depth)
}

/// Drops bracket characters that would be unbalanced or mismatched under plain bracket counting.
pub fn rebalance(s: &str) -> String {
    let mut out = String::new();
    let mut stack: Vec<char> = vec![];
    for c in s.chars() {
        match c {
            '(' | '[' | '{' => {
                stack.push(c);
                out.push(c);
            }
            ')' | ']' | '}' => {
                let want = match stack.last() {
                    Some('(') => ')',
                    Some('[') => ']',
                    Some('{') => '}',
                    _ => continue,
                };
                if c == want {
                    stack.pop();
                    out.push(c);
                }
            }
            '\n' => {}
            _ => out.push(c),
        }
    }
    while let Some(o) = stack.pop() {
        out.push(match o {
            '(' => ')',
            '[' => ']',
            _ => '}',
        });
    }
    out
}

/// A malformed attribute (wrong closer, extra closer inside, missing closer before newline / EOF).
pub fn gen_bad_attr(ch: &mut Chooser) -> String {
    if ch.pick(24) == 23 {
        // deeply nested and malformed: a wrong closer somewhere on the way out, a missing closer, one closer too many
        let (open, mut close) = deep_nest(ch);
        return match ch.pick(4) {
            0 => {
                let at = ch.pick(close.len());
                let wrong = match close.as_bytes()[at] {
                    b')' => "]",
                    b']' => "}",
                    _ => ")",
                };
                close.replace_range(at..at + 1, wrong);
                format!("#[{open}x{close}]")
            }
            1 => format!("#[{open}x{}", &close[..close.len() - 1 - ch.pick(close.len() - 1)]),
            2 => format!("#[{open}x{close})]"),
            _ => format!("#[{open}"),
        };
    }
    let mut depth = 0;
    let mut body = String::new();
    attr_body(ch, 0, &mut body, &mut depth);
    let body = rebalance(&body);
    match ch.pick(5) {
        0 => format!("#[{body}(]"),
        1 => format!("#[{body})]"),
        2 => format!("#[{body}{{ x"),
        3 => format!("#[({body}]) y"),
        _ => format!("#[{body}"),
    }
}

// ---------------------------------------------------------------------------
// G5 payload type expressions (text level: arbitrary segment names)

pub const TYPE_SEGMENTS: [&str; 26] = [
    "crate", "std", "String", "Vec", "Option", "usize", "a", "B", "_x", "T", "collections", "HashMap", "Box", "u8", "Self_", "x1",
    // segments that CONTAIN names a textual substitution might be after: helper names, pool names of nonterminals /
    // terminals / the terminal enum, keywords of the path syntax
    "MyNode", "StateMachine", "EofMarker", "TokenKind", "SelfRef", "NonSelfish", "FooBar", "selfish", "supercrate", "A2",
];

pub fn gen_type(ch: &mut Chooser, depth: usize, max_depth: usize) -> RType {
    let k = ch.pick(6);
    if k == 0 {
        return RType::Unit;
    }
    let nseg = 1 + ch.pick(4);
    let path: Vec<Id> = (0..nseg).map(|_| Id::new(TYPE_SEGMENTS[ch.pick(TYPE_SEGMENTS.len())])).collect();
    if k >= 3 && depth < max_depth {
        let nargs = 1 + ch.pick(3);
        let args = (0..nargs).map(|_| gen_type(ch, depth + 1, max_depth)).collect();
        RType::Generic(path, args)
    } else {
        RType::Path(path)
    }
}
