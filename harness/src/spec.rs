//! Index-based grammar specification (`Spec`), its CFG, and its rendering to a
//! Kiki file (`RFile`) under a `Naming`.
//!
//! A `Spec` is well-formed by construction (after `normalize`): every symbol
//! index is in range, variants of one enum have pairwise distinct symbol
//! sequences, a struct has exactly one production.

use crate::ast::*;
use crate::cfg::{Cfg, Rule, S};

#[derive(Clone, Copy, Debug, PartialEq, Eq, PartialOrd, Ord, Hash)]
pub enum Sym {
    T(usize),
    N(usize),
}

#[derive(Clone, Copy, Debug, PartialEq, Eq, Hash)]
pub enum Form {
    Empty,
    Named,
    Tuple,
}

#[derive(Clone, Debug, PartialEq, Eq, Hash)]
pub struct SField {
    pub sym: Sym,
    pub used: bool,
}

#[derive(Clone, Debug, PartialEq, Eq, Hash)]
pub struct SFs {
    pub form: Form,
    pub fields: Vec<SField>,
}

impl SFs {
    pub fn empty() -> SFs {
        SFs { form: Form::Empty, fields: vec![] }
    }
    pub fn seq(&self) -> Vec<Sym> {
        self.fields.iter().map(|f| f.sym).collect()
    }
    pub fn fix_form(&mut self) {
        if self.fields.is_empty() {
            self.form = Form::Empty;
        } else if self.form == Form::Empty {
            self.form = Form::Tuple;
        }
    }
    pub fn has_used(&self) -> bool {
        self.fields.iter().any(|f| f.used)
    }
}

#[derive(Clone, Debug, PartialEq, Eq, Hash)]
pub struct SNt {
    pub is_enum: bool,
    /// struct: exactly one entry
    pub variants: Vec<SFs>,
}

#[derive(Clone, Debug, PartialEq, Eq, Hash)]
pub struct Spec {
    pub n_terms: usize,
    pub nts: Vec<SNt>,
    pub start: usize,
    /// position (0..=nts.len()) of the `start` and `terminal` items among the nonterminal items
    pub slots: (usize, usize),
}

impl Spec {
    /// Enforces the invariants (total, deterministic, never rejects).
    pub fn normalize(&mut self) {
        if self.nts.is_empty() {
            self.nts.push(SNt { is_enum: false, variants: vec![SFs::empty()] });
        }
        let nn = self.nts.len();
        let nt = self.n_terms;
        for n in self.nts.iter_mut() {
            if !n.is_enum {
                if n.variants.is_empty() {
                    n.variants.push(SFs::empty());
                }
                n.variants.truncate(1);
            }
            for v in n.variants.iter_mut() {
                v.fields.retain(|f| match f.sym {
                    Sym::T(t) => t < nt,
                    Sym::N(m) => m < nn,
                });
                v.fix_form();
            }
            // distinct symbol sequences within one enum: drop later duplicates
            let mut seen: Vec<Vec<Sym>> = vec![];
            n.variants.retain(|v| {
                let s = v.seq();
                if seen.contains(&s) {
                    false
                } else {
                    seen.push(s);
                    true
                }
            });
        }
        if self.start >= nn {
            self.start = nn - 1;
        }
        self.slots.0 = self.slots.0.min(nn);
        self.slots.1 = self.slots.1.min(nn);
    }

    pub fn n_rules(&self) -> usize {
        self.nts.iter().map(|n| n.variants.len()).sum()
    }

    /// One rule per struct / enum variant in declaration order, `_` fields included.
    pub fn cfg(&self) -> Cfg {
        let mut rules = vec![];
        for (i, n) in self.nts.iter().enumerate() {
            for v in &n.variants {
                rules.push(Rule {
                    lhs: i as u16,
                    rhs: v
                        .fields
                        .iter()
                        .map(|f| match f.sym {
                            Sym::T(t) => S::T(t as u16),
                            Sym::N(m) => S::N(m as u16),
                        })
                        .collect(),
                });
            }
        }
        Cfg { n_t: self.n_terms, n_n: self.nts.len(), rules, start: self.start as u16 }
    }

    /// (nonterminal index, variant index) of each rule.
    pub fn rule_origin(&self) -> Vec<(usize, usize)> {
        let mut v = vec![];
        for (i, n) in self.nts.iter().enumerate() {
            for j in 0..n.variants.len() {
                v.push((i, j));
            }
        }
        v
    }

    /// Removes rule `r` if that keeps the spec well-formed in a useful way.
    pub fn remove_rule(&mut self, r: usize) -> bool {
        let (n, j) = self.rule_origin()[r];
        let nt = &mut self.nts[n];
        if nt.is_enum && nt.variants.len() > 1 {
            nt.variants.remove(j);
            true
        } else if !nt.variants[j].fields.is_empty() {
            nt.variants[j].fields.pop();
            nt.variants[j].fix_form();
            true
        } else {
            false
        }
    }
}

// ---------------------------------------------------------------------------
// Naming and rendering

#[derive(Clone, Debug, PartialEq, Eq)]
pub struct Naming {
    pub nts: Vec<String>,
    /// variant names per nonterminal (unused for structs)
    pub variants: Vec<Vec<String>>,
    /// field names per nonterminal, per variant, per field (used for named fieldsets' used fields)
    pub fields: Vec<Vec<Vec<String>>>,
    pub terms: Vec<String>,
    pub term_enum: String,
    pub term_types: Vec<RType>,
    pub nt_attrs: Vec<Vec<String>>,
    pub term_attrs: Vec<String>,
}

impl Naming {
    pub fn conventional(spec: &Spec) -> Naming {
        Naming {
            nts: (0..spec.nts.len()).map(|i| format!("N{i}")).collect(),
            variants: spec.nts.iter().map(|n| (0..n.variants.len()).map(|j| format!("V{j}")).collect()).collect(),
            fields: spec
                .nts
                .iter()
                .map(|n| n.variants.iter().map(|v| (0..v.fields.len()).map(|k| format!("f{k}")).collect()).collect())
                .collect(),
            terms: (0..spec.n_terms).map(|i| format!("T{i}")).collect(),
            term_enum: "Tok".to_string(),
            term_types: vec![RType::Unit; spec.n_terms],
            nt_attrs: vec![vec![]; spec.nts.len()],
            term_attrs: vec![],
        }
    }
}

fn sym_r(s: Sym, nm: &Naming) -> RSym {
    match s {
        Sym::T(t) => RSym::T(Id::new(&nm.terms[t])),
        Sym::N(n) => RSym::N(Id::new(&nm.nts[n])),
    }
}

fn fs_r(fs: &SFs, names: &[String], nm: &Naming) -> RFieldset {
    match fs.form {
        Form::Empty => RFieldset::Empty,
        Form::Named => RFieldset::Named(
            fs.fields
                .iter()
                .enumerate()
                .map(|(k, f)| (if f.used { Some(Id::new(&names[k])) } else { None }, sym_r(f.sym, nm)))
                .collect(),
        ),
        Form::Tuple => RFieldset::Tuple(fs.fields.iter().map(|f| (f.used, sym_r(f.sym, nm))).collect()),
    }
}

pub fn to_rfile(spec: &Spec, nm: &Naming) -> RFile {
    let mut nt_items: Vec<RItem> = vec![];
    for (i, n) in spec.nts.iter().enumerate() {
        let attrs: Vec<RAttr> = nm.nt_attrs[i].iter().map(|a| RAttr { src: a.clone(), pos: NOPOS }).collect();
        if n.is_enum {
            nt_items.push(RItem::Enum {
                attrs,
                name: Id::new(&nm.nts[i]),
                variants: n
                    .variants
                    .iter()
                    .enumerate()
                    .map(|(j, v)| (Id::new(&nm.variants[i][j]), fs_r(v, &nm.fields[i][j], nm)))
                    .collect(),
            });
        } else {
            nt_items.push(RItem::Struct { attrs, name: Id::new(&nm.nts[i]), fs: fs_r(&n.variants[0], &nm.fields[i][0], nm) });
        }
    }
    let start = RItem::Start(Id::new(&nm.nts[spec.start]));
    let term = RItem::Terminal {
        attrs: nm.term_attrs.iter().map(|a| RAttr { src: a.clone(), pos: NOPOS }).collect(),
        name: Id::new(&nm.term_enum),
        variants: (0..spec.n_terms).map(|t| (Id::new(&nm.terms[t]), nm.term_types[t].clone())).collect(),
    };
    let mut items = vec![];
    let n = nt_items.len();
    let mut it = nt_items.into_iter();
    for slot in 0..=n {
        if spec.slots.0 == slot {
            items.push(start.clone());
        }
        if spec.slots.1 == slot {
            items.push(term.clone());
        }
        if let Some(x) = it.next() {
            items.push(x);
        }
    }
    RFile { items }
}

/// Reads a *valid* reference AST back into a Spec + Naming. Returns None when
/// the file is not statically well-formed in the ways a Spec requires.
pub fn from_rfile(file: &RFile) -> Option<(Spec, Naming)> {
    let starts = file.start_items();
    let terms = file.terminal_items();
    if starts.len() != 1 || terms.len() != 1 {
        return None;
    }
    let (term_attrs, term_enum, tvariants) = match terms[0] {
        RItem::Terminal { attrs, name, variants } => (attrs, name, variants),
        _ => unreachable!(),
    };
    let nts = file.nonterminal_items();
    let nt_names: Vec<String> = nts
        .iter()
        .map(|i| match i {
            RItem::Struct { name, .. } | RItem::Enum { name, .. } => name.name.clone(),
            _ => unreachable!(),
        })
        .collect();
    let t_names: Vec<String> = tvariants.iter().map(|(n, _)| n.name.clone()).collect();
    // all top-level names distinct
    let mut all: Vec<&String> = nt_names.iter().chain(t_names.iter()).collect();
    all.push(&term_enum.name);
    let mut sorted = all.clone();
    sorted.sort();
    sorted.dedup();
    if sorted.len() != all.len() {
        return None;
    }
    let sym = |s: &RSym| -> Option<Sym> {
        match s {
            RSym::N(i) => nt_names.iter().position(|n| *n == i.name).map(Sym::N),
            RSym::T(i) => t_names.iter().position(|n| *n == i.name).map(Sym::T),
        }
    };
    let fs = |f: &RFieldset| -> Option<(SFs, Vec<String>)> {
        Some(match f {
            RFieldset::Empty => (SFs::empty(), vec![]),
            RFieldset::Named(v) => {
                let mut fields = vec![];
                let mut names = vec![];
                for (n, s) in v {
                    fields.push(SField { sym: sym(s)?, used: n.is_some() });
                    names.push(n.as_ref().map(|i| i.name.clone()).unwrap_or_else(|| "_".into()));
                }
                (SFs { form: Form::Named, fields }, names)
            }
            RFieldset::Tuple(v) => {
                let mut fields = vec![];
                for (u, s) in v {
                    fields.push(SField { sym: sym(s)?, used: *u });
                }
                let n = fields.len();
                (SFs { form: Form::Tuple, fields }, vec![String::new(); n])
            }
        })
    };
    let mut snts = vec![];
    let mut vnames = vec![];
    let mut fnames = vec![];
    let mut nt_attrs = vec![];
    for it in &nts {
        match it {
            RItem::Struct { attrs, fs: f, .. } => {
                let (sf, names) = fs(f)?;
                snts.push(SNt { is_enum: false, variants: vec![sf] });
                vnames.push(vec![String::new()]);
                fnames.push(vec![names]);
                nt_attrs.push(attrs.iter().map(|a| a.src.clone()).collect());
            }
            RItem::Enum { attrs, variants, .. } => {
                let mut vs = vec![];
                let mut vn = vec![];
                let mut fnn = vec![];
                for (n, f) in variants {
                    let (sf, names) = fs(f)?;
                    vs.push(sf);
                    vn.push(n.name.clone());
                    fnn.push(names);
                }
                // distinct names and sequences
                for a in 0..vs.len() {
                    for b in 0..a {
                        if vn[a] == vn[b] || vs[a].seq() == vs[b].seq() {
                            return None;
                        }
                    }
                }
                snts.push(SNt { is_enum: true, variants: vs });
                vnames.push(vn);
                fnames.push(fnn);
                nt_attrs.push(attrs.iter().map(|a| a.src.clone()).collect());
            }
            _ => unreachable!(),
        }
    }
    let start = nt_names.iter().position(|n| *n == starts[0].name)?;
    // slots
    let mut slot_start = 0;
    let mut slot_term = 0;
    let mut seen_nts = 0;
    for it in &file.items {
        match it {
            RItem::Start(_) => slot_start = seen_nts,
            RItem::Terminal { .. } => slot_term = seen_nts,
            _ => seen_nts += 1,
        }
    }
    let spec = Spec { n_terms: t_names.len(), nts: snts, start, slots: (slot_start, slot_term) };
    let naming = Naming {
        nts: nt_names,
        variants: vnames,
        fields: fnames,
        terms: t_names,
        term_enum: term_enum.name.clone(),
        term_types: tvariants.iter().map(|(_, t)| t.clone()).collect(),
        nt_attrs,
        term_attrs: term_attrs.iter().map(|a| a.src.clone()).collect(),
    };
    Some((spec, naming))
}
