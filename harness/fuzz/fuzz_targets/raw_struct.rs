#![no_main]
use libfuzzer_sys::fuzz_target;

fuzz_target!(|data: &[u8]| {
    kiki_verif::fuzzapi::raw_struct(data);
});
