//! C15 (header hash round trip), C18 (Oset vs BTreeSet), C12 (attributes verbatim), C13 (payload types, text level).

use super::common::*;
use super::frontend::{decorated_file, raw_text, RawText};
use super::lalr::{quota_check, regress};
use crate::ast::*;
use crate::emitted::{self, EFs};
use crate::engine::*;
use crate::gen::pick;
use crate::layout::{self, MARK};
use crate::outcome::{self, Outcome};
use crate::sha256;
use crate::spec::{self, Form, Sym};
use crate::textgen::DecorOpts;
use proptest::collection::vec;
use proptest::prelude::*;
use serde_json::{json, Value};
use std::collections::BTreeSet;
use std::hash::{Hash, Hasher};

// ---------------------------------------------------------------------------
// C15

/// Reference for get_grammar_hash: scan '\n'-separated lines (one trailing '\r' stripped) while they start
/// with `//`; the first that starts with `// @sha256 ` yields the rest of that line.
pub fn ref_grammar_hash(text: &str) -> Option<&str> {
    ref_grammar_hash_ext(text).0
}

/// Second component: an alternative answer that is equally defensible — a final line that ends in a bare
/// '\r' without any '\n' (is the CR a line ending or part of the line?).
pub fn ref_grammar_hash_ext(text: &str) -> (Option<&str>, Option<&str>) {
    const P: &str = "// @sha256 ";
    let mut rest = text;
    loop {
        if rest.is_empty() {
            return (None, None);
        }
        let (raw_line, next, terminated) = match rest.find('\n') {
            Some(i) => (&rest[..i], &rest[i + 1..], true),
            None => (rest, "", false),
        };
        let line = raw_line.strip_suffix('\r').unwrap_or(raw_line);
        if !line.starts_with("//") {
            return (None, None);
        }
        if line.starts_with(P) {
            let alt = if !terminated && raw_line.len() != line.len() { Some(&raw_line[P.len()..]) } else { None };
            return (Some(&line[P.len()..]), alt);
        }
        rest = next;
    }
}

fn kiki_hash(text: &str) -> Result<Option<String>, String> {
    note_current_input(Some(text));
    let r = catch(|| kiki::get_grammar_hash(kiki::RustSrcRef(text)).map(|s| s.to_string()));
    note_current_input(None);
    r
}

pub fn c15_judge_header(text: &str) -> Result<(), Failure> {
    let case = json!({"kind": "header", "source": text});
    let (want, alt) = ref_grammar_hash_ext(text);
    let want = want.map(|s| s.to_string());
    let alt = alt.map(|s| s.to_string());
    match kiki_hash(text) {
        Err(p) => Err(Failure::new("hash-panic", format!("get_grammar_hash panicked: {p}"), case)),
        Ok(got) => {
            if got == want || (alt.is_some() && got == alt) {
                Ok(())
            } else {
                Err(Failure::new(
                    "wrong-header-scan",
                    format!("get_grammar_hash returned {got:?}; the first `// @sha256 ` line inside the leading `//` block gives {want:?}"),
                    case,
                ))
            }
        }
    }
}

pub fn c15_judge_source(src: &str) -> Result<bool, Failure> {
    let case = json!({"kind": "source", "source": src});
    let fail = |k: &str, d: String| Err(Failure::new(k, d, case.clone()));
    let Outcome::Ok(out) = outcome::generate(src) else { return Ok(false) };
    if !out.starts_with("//") {
        return fail("header-missing", "emitted text does not begin with a `//` comment header".into());
    }
    let digest = sha256::hex(src.as_bytes());
    match kiki_hash(&out) {
        Err(p) => return fail("hash-panic", format!("get_grammar_hash panicked: {p}")),
        Ok(got) => {
            if got.as_deref() != Some(digest.as_str()) {
                return fail("wrong-digest", format!("get_grammar_hash(emitted) = {got:?}, SHA-256 of the exact source is {digest}"));
            }
        }
    }
    if ref_grammar_hash(&out) != Some(digest.as_str()) {
        return fail("digest-not-in-header", format!("the leading `//` block of the emitted text does not carry `// @sha256 {digest}`"));
    }
    // freshness test of the build script: a perturbed source must not be considered fresh
    for variant in [format!("{src}\n"), format!("{src} "), format!(" {src}"), src.replacen(' ', "  ", 1), src.replace('\n', "\r\n")] {
        if variant != src {
            let d2 = sha256::hex(variant.as_bytes());
            if kiki_hash(&out).ok().flatten().as_deref() == Some(d2.as_str()) {
                return fail("stale-output-considered-fresh", "the stored digest equals the digest of a different source text".into());
            }
            if let Outcome::Ok(out2) = outcome::generate(&variant) {
                if kiki_hash(&out2).ok().flatten().as_deref() != Some(d2.as_str()) {
                    return fail("wrong-digest", format!("for a re-spaced variant of the source the stored digest is not the digest of that exact text ({d2})"));
                }
            }
        }
    }
    Ok(true)
}

pub const HEADER_FRAGMENTS: [&str; 30] = [
    "//",
    "// @sha256 ",
    "// @sha256",
    "// @sha256 // @sha256 abc",
    "// @sha256 0123abcd",
    "// @sha256  two-spaces",
    " // @sha256 indented",
    "\t// @sha256 tab",
    "//@sha256 nospace",
    "// @SHA256 upper",
    "// comment",
    "/// doc",
    "",
    " ",
    "#![allow(dead_code)]",
    "fn x() {}",
    "/ / @sha256 x",
    "// é€ @sha256 ",
    "abc",
    "// @sha256 ",
    "e3b0c44298fc1c149afbf4c8996fb92427ae41e4649b934ca495991b7852b855",
    "// This code was generated by Kiki.",
    "\r",
    "// @sha256 x\ry",
    " ",
    "@sha256 ",
    "//\t@sha256 q",
    "// @sha256 trailing ",
    "/",
    "//// @sha256 z",
];

fn header_text(lines: &[(Vec<u16>, u8)], final_nl: bool) -> String {
    let mut s = String::new();
    for (k, (frags, eol)) in lines.iter().enumerate() {
        for f in frags {
            s.push_str(HEADER_FRAGMENTS[pick(*f, HEADER_FRAGMENTS.len())]);
        }
        if k + 1 < lines.len() || final_nl {
            s.push_str(if *eol % 4 == 0 { "\r\n" } else { "\n" });
        }
    }
    s
}

fn c15_header_test(raw: &(Vec<(Vec<u16>, u8)>, bool), st: &mut Stats) -> Result<(), Failure> {
    let text = header_text(&raw.0, raw.1);
    const P: &str = "// @sha256 ";
    let occurrences = text.matches(P).count();
    let want = ref_grammar_hash(&text);
    st.class(if want.is_some() { "header:hash-found" } else { "header:none" });
    // prefix both inside and outside the leading block, or more than once
    let block_len: usize = {
        let mut n = 0;
        for l in text.split('\n') {
            let l = l.strip_suffix('\r').unwrap_or(l);
            if l.starts_with("//") {
                n += l.len() + 1;
            } else {
                break;
            }
        }
        n.min(text.len())
    };
    let inside = text[..block_len].matches(P).count();
    if occurrences >= 2 || (inside >= 1 && occurrences > inside) {
        st.nontrivial(&text);
        if st.want_sample() {
            st.sample(json!({"text": text, "expected": want}));
        }
    }
    c15_judge_header(&text)
}

fn c15_source_test(raw: &RawText, st: &mut Stats) -> Result<(), Failure> {
    let opts = DecorOpts { attrs: true, types: true, pool_names: true, max_type_depth: 2 };
    let (_, _, file) = decorated_file(raw, opts);
    let r = layout::render(&file.atoms(), &raw.layout);
    match c15_judge_source(&r.text)? {
        true => {
            st.class("source:accepted");
            text_size_classes(&r.text, st);
            if r.text.len() >= 200 && !r.text.is_ascii() {
                st.nontrivial(&r.text);
                if st.want_sample() {
                    st.sample(json!({"source": r.text, "sha256": sha256::hex(r.text.as_bytes())}));
                }
            }
        }
        false => st.discard("source not accepted by generate"),
    }
    Ok(())
}

pub fn c15_replay(case: &Value) -> Result<(), Failure> {
    let text = case_text(case)?;
    if case["kind"].as_str() == Some("source") {
        c15_judge_source(&text).map(|_| ())
    } else {
        c15_judge_header(&text)
    }
}

pub const C15_RULE: &str = "(a) accepted grammar sources (decorated, random layouts incl. CRLF, multi-byte comments, with/without trailing newline): emitted text starts with `//`, get_grammar_hash(emitted) == own SHA-256 (FIPS 180-4, self-tested on the standard vectors) of the exact source bytes, and re-spaced variants of the source never share the stored digest; (b) arbitrary header texts composed from line fragments (`//`, the prefix, the prefix repeated / indented / without space, code lines, CRLF, no final newline): get_grammar_hash vs a 10-line reference scan. Non-trivial = (a) source >= 200 bytes with a non-ASCII byte, (b) the prefix occurs more than once or both inside and outside the leading block; distinct = the text.";

pub fn c15_run(ctx: &Ctx) -> i32 {
    let mut rep = Report::new(ctx, C15_RULE);
    if !sha256::self_test() {
        rep.internal.push(Failure::internal("sha256-self-test", "own SHA-256 fails the standard vectors".into(), Value::Null));
        return rep.finish();
    }
    rep.assumptions = vec!["a line ends at '\\n'; a '\\r' directly before it is not part of the line (CRLF files); for a final line that ends in a bare '\\r' without '\\n' both readings are accepted".into()];
    regress(ctx, &mut rep, "C15", c15_replay);
    let out = run_sharded(
        ctx,
        "C15-header",
        ctx.budget(600_000, 12_000_000),
        || (vec((vec(any::<u16>(), 0..=3), any::<u8>()), 0..=6), any::<bool>()),
        c15_header_test,
    );
    rep.absorb("E1-proptest-header-texts", out);
    let out = run_sharded(ctx, "C15-source", ctx.budget(60_000, 1_000_000), || raw_text(&[0]), c15_source_test);
    rep.absorb("E1-proptest-sources", out);
    if ctx.tier == Tier::Thorough {
        crate::fuzzrun::run_into(ctx, &mut rep, crate::fuzzrun::Campaign { target: "hash_header", prop: "C15", runs_total: (ctx.scale * 100_000_000.0) as u64, max_len: 200, seeds: vec![b"// @sha256 abc\n".to_vec(), b"//\n// @sha256 // @sha256 x\r\n\nfn f(){}".to_vec()], dict: true });
        crate::fuzzrun::run_into(ctx, &mut rep, crate::fuzzrun::Campaign { target: "text_frontend", prop: "C15", runs_total: (ctx.scale * 10_000_000.0) as u64, max_len: 2048, seeds: crate::fuzzrun::text_seeds(), dict: true });
    }
    quota_check(&mut rep, &["header:hash-found", "header:none", "source:accepted"]);
    rep.finish()
}

// ---------------------------------------------------------------------------
// C18

#[derive(Clone, Debug)]
pub enum Op<T> {
    /// items and the shape of the iterator they are offered through (`offer`)
    FromIter(Vec<T>, u8),
    Insert(T),
    Extend(Vec<T>, u8),
    Contains(T),
    Iterate,
    CloneSelf,
    Reset,
}

pub const N_SHAPES: u8 = 14;

/// The same items through iterators of different kinds: what `FromIterator` / `Extend` may legitimately assume about
/// an iterator is only what `Iterator` promises (size_hint is a hint; lower bound 0, upper bound None are common).
fn offer<'a, T: Clone + 'a>(v: &'a [T], shape: u8) -> Box<dyn Iterator<Item = T> + 'a> {
    struct NoHint<I>(I);
    impl<I: Iterator> Iterator for NoHint<I> {
        type Item = I::Item;
        fn next(&mut self) -> Option<I::Item> {
            self.0.next()
        }
        // default size_hint: (0, None)
    }
    match shape % N_SHAPES {
        0 => Box::new(v.iter().cloned()),                                  // exact size
        1 => Box::new(v.to_vec().into_iter()),                             // owned, exact size
        2 => Box::new(v.iter().cloned().filter(|_| true)),                 // (0, Some(n))
        3 => Box::new(v.chunks(2).flat_map(|c| c.iter().cloned())),        // (0, None) / loose
        4 => {
            let (a, b) = v.split_at(v.len() / 2);
            Box::new(a.iter().cloned().chain(b.iter().cloned()))           // exact, chained
        }
        5 => Box::new(NoHint(v.iter().cloned())),                          // (0, None)
        6 => {
            let mut i = 0;
            Box::new(std::iter::from_fn(move || {
                i += 1;
                v.get(i - 1).cloned()
            }))                                                            // (0, None)
        }
        7 => Box::new(v.iter().cloned().take_while(|_| true)),             // (0, Some(n))
        8 => Box::new(v.iter().cloned().skip_while(|_| false)),            // (0, Some(n))
        9 => {
            // lower bound 1, more items follow
            let mut it = v.iter().cloned();
            match it.next() {
                Some(first) => Box::new(std::iter::once(first).chain(it.filter(|_| true))),
                None => Box::new(std::iter::empty()),
            }
        }
        10 => Box::new(v.iter().cloned().map_while(Some)),                 // (0, Some(n))
        11 => Box::new(v.iter().cloned().scan((), |_, x| Some(x))),        // (0, Some(n))
        12 => Box::new(v.iter().cloned().peekable()),                      // exact, buffered
        _ => Box::new(v.iter().cloned().fuse().inspect(|_| {})),           // exact through adaptors
    }
}

fn op_strategy<T: std::fmt::Debug + Clone + 'static>(elem: impl Strategy<Value = T> + Clone + 'static) -> impl Strategy<Value = Op<T>> {
    // mostly small bulks; 1 in 9 offers 6..80 items at once (size thresholds inside the set)
    let bulk = |e: BoxedStrategy<T>| prop_oneof![8 => vec(e.clone(), 0..6), 1 => vec(e, 6..80)];
    let elem = elem.boxed();
    prop_oneof![
        2 => (bulk(elem.clone()), 0..N_SHAPES).prop_map(|(v, s)| Op::FromIter(v, s)),
        6 => elem.clone().prop_map(Op::Insert),
        3 => (bulk(elem.clone()), 0..N_SHAPES).prop_map(|(v, s)| Op::Extend(v, s)),
        3 => elem.prop_map(Op::Contains),
        2 => Just(Op::Iterate),
        1 => Just(Op::CloneSelf),
        1 => Just(Op::Reset),
    ]
}

pub trait Elem: Ord + Clone + Hash + std::fmt::Debug {
    fn to_json(&self) -> Value;
    fn from_json(v: &Value) -> Option<Self>;
}
impl Elem for u8 {
    fn to_json(&self) -> Value {
        json!(self)
    }
    fn from_json(v: &Value) -> Option<Self> {
        v.as_u64().map(|n| n as u8)
    }
}
impl Elem for (i8, String) {
    fn to_json(&self) -> Value {
        json!([self.0, self.1])
    }
    fn from_json(v: &Value) -> Option<Self> {
        Some((v[0].as_i64()? as i8, v[1].as_str()?.to_string()))
    }
}
impl Elem for Vec<u8> {
    fn to_json(&self) -> Value {
        json!(self)
    }
    fn from_json(v: &Value) -> Option<Self> {
        v.as_array().map(|a| a.iter().filter_map(|x| x.as_u64().map(|n| n as u8)).collect())
    }
}

fn ops_to_json<T: Elem>(ops: &[Op<T>]) -> Value {
    Value::Array(
        ops.iter()
            .map(|o| match o {
                Op::FromIter(v, sh) => json!({"op": "from_iter", "shape": sh, "v": v.iter().map(|x| x.to_json()).collect::<Vec<_>>()}),
                Op::Insert(x) => json!({"op": "insert", "v": [x.to_json()]}),
                Op::Extend(v, sh) => json!({"op": "extend", "shape": sh, "v": v.iter().map(|x| x.to_json()).collect::<Vec<_>>()}),
                Op::Contains(x) => json!({"op": "contains", "v": [x.to_json()]}),
                Op::Iterate => json!({"op": "iterate"}),
                Op::CloneSelf => json!({"op": "clone"}),
                Op::Reset => json!({"op": "reset"}),
            })
            .collect(),
    )
}

fn ops_from_json<T: Elem>(v: &Value) -> Option<Vec<Op<T>>> {
    let mut ops = vec![];
    for o in v.as_array()? {
        let vals: Vec<T> = o["v"].as_array().map(|a| a.iter().filter_map(T::from_json).collect()).unwrap_or_default();
        let shape = o["shape"].as_u64().unwrap_or(0) as u8;
        ops.push(match o["op"].as_str()? {
            "from_iter" => Op::FromIter(vals, shape),
            "insert" => Op::Insert(vals.first()?.clone()),
            "extend" => Op::Extend(vals, shape),
            "contains" => Op::Contains(vals.first()?.clone()),
            "iterate" => Op::Iterate,
            "clone" => Op::CloneSelf,
            _ => Op::Reset,
        });
    }
    Some(ops)
}

struct FixedHasher(u64);
impl Hasher for FixedHasher {
    fn finish(&self) -> u64 {
        self.0
    }
    fn write(&mut self, b: &[u8]) {
        for x in b {
            self.0 = (self.0 ^ *x as u64).wrapping_mul(0x100000001b3);
        }
    }
}
fn h<T: Hash>(t: &T) -> u64 {
    let mut s = FixedHasher(0xcbf29ce484222325);
    t.hash(&mut s);
    s.finish()
}

struct HistoryFacts {
    duplicate_offered: bool,
    out_of_order_insert_after_bulk: bool,
}

fn run_history<T: Ord + Clone + Hash + std::fmt::Debug>(
    ops: &[Op<T>],
    probes: &[T],
) -> Result<(kiki::Oset<T>, BTreeSet<T>, HistoryFacts), String> {
    let mut set: kiki::Oset<T> = kiki::Oset::new();
    let mut model: BTreeSet<T> = BTreeSet::new();
    let mut facts = HistoryFacts { duplicate_offered: false, out_of_order_insert_after_bulk: false };
    let mut bulk_seen = false;
    let check = |set: &kiki::Oset<T>, model: &BTreeSet<T>, step: usize, op: &str| -> Result<(), String> {
        let got: Vec<&T> = set.iter().collect();
        let want: Vec<&T> = model.iter().collect();
        if got != want {
            return Err(format!("after step {step} ({op}): iteration yields {got:?}, a sorted set yields {want:?}"));
        }
        if set.len() != model.len() {
            return Err(format!("after step {step} ({op}): len {} vs {}", set.len(), model.len()));
        }
        let via_ref: Vec<&T> = (&*set).into_iter().collect();
        if via_ref != want {
            return Err(format!("after step {step} ({op}): `&set` iteration differs from slice iteration"));
        }
        for w in got.windows(2) {
            if !(w[0] < w[1]) {
                return Err(format!("after step {step} ({op}): not strictly increasing at {:?} {:?}", w[0], w[1]));
            }
        }
        for p in probes {
            if set.contains(p) != model.contains(p) {
                return Err(format!("after step {step} ({op}): contains({p:?}) = {}, expected {}", set.contains(p), model.contains(p)));
            }
        }
        Ok(())
    };
    check(&set, &model, 0, "new")?;
    for (i, op) in ops.iter().enumerate() {
        match op {
            Op::FromIter(v, shape) => {
                let mut seen = BTreeSet::new();
                for x in v {
                    if !seen.insert(x) {
                        facts.duplicate_offered = true;
                    }
                }
                set = offer(v, *shape).collect();
                model = v.iter().cloned().collect();
                bulk_seen = true;
            }
            Op::Insert(x) => {
                if model.contains(x) {
                    facts.duplicate_offered = true;
                }
                if bulk_seen && model.iter().next_back().map_or(false, |m| x < m) {
                    facts.out_of_order_insert_after_bulk = true;
                }
                set.insert(x.clone());
                model.insert(x.clone());
            }
            Op::Extend(v, shape) => {
                for x in v {
                    if model.contains(x) {
                        facts.duplicate_offered = true;
                    }
                }
                set.extend(offer(v, *shape));
                model.extend(v.iter().cloned());
                bulk_seen = true;
            }
            Op::Contains(x) => {
                if set.contains(x) != model.contains(x) {
                    return Err(format!("step {}: contains({x:?}) = {}, expected {}", i + 1, set.contains(x), model.contains(x)));
                }
            }
            Op::Iterate => {
                let owned: Vec<T> = set.clone().into_iter().collect();
                let want: Vec<T> = model.iter().cloned().collect();
                if owned != want {
                    return Err(format!("step {}: into_iter yields {owned:?}, expected {want:?}", i + 1));
                }
            }
            Op::CloneSelf => {
                let c = set.clone();
                if c != set {
                    return Err(format!("step {}: clone differs from original", i + 1));
                }
                set = c;
            }
            Op::Reset => {
                set = kiki::Oset::default();
                model.clear();
            }
        }
        check(&set, &model, i + 1, &format!("{op:?}"))?;
    }
    Ok((set, model, facts))
}

fn c18_pair<T: Elem>(a: &[Op<T>], b: &[Op<T>], probes: &[T], st: &mut Stats, label: &str) -> Result<(), Failure> {
    let case = json!({"elem": label, "ops_a": ops_to_json(a), "ops_b": ops_to_json(b)});
    let fail = |d: String| Failure::new("oset-differs-from-sorted-set", d, case.clone());
    let (sa, ma, fa) = run_history(a, probes).map_err(|e| fail(format!("history A: {e}")))?;
    let (sb, mb, fb) = run_history(b, probes).map_err(|e| fail(format!("history B: {e}")))?;
    // comparison depends only on the element sets
    let canon_a: kiki::Oset<T> = ma.iter().cloned().collect();
    let canon_b: kiki::Oset<T> = mb.iter().cloned().collect();
    if ma == mb {
        st.class("pair:equal-sets");
        if sa != sb || sa.cmp(&sb) != std::cmp::Ordering::Equal || h(&sa) != h(&sb) || sa.partial_cmp(&sb) != Some(std::cmp::Ordering::Equal) {
            return Err(fail(format!("two histories produce the same element set {ma:?} but the sets compare/hash differently")));
        }
    } else {
        st.class("pair:different-sets");
        if sa == sb {
            return Err(fail(format!("sets with different elements {ma:?} vs {mb:?} compare equal")));
        }
        if sa.cmp(&sb) != sb.cmp(&sa).reverse() || sa.cmp(&sb) == std::cmp::Ordering::Equal {
            return Err(fail("ordering is not antisymmetric".into()));
        }
        if sa.cmp(&sb) != canon_a.cmp(&canon_b) {
            return Err(fail("ordering between two sets depends on the history, not only on the element sets".into()));
        }
        // one ordering: `<`, `partial_cmp` and `cmp` must tell the same story
        if sa.partial_cmp(&sb) != Some(sa.cmp(&sb)) || (sa < sb) != (sa.cmp(&sb) == std::cmp::Ordering::Less) {
            return Err(fail(format!("partial_cmp / `<` disagree with cmp for {ma:?} vs {mb:?}")));
        }
    }
    if sa != canon_a || h(&sa) != h(&canon_a) {
        return Err(fail("a set differs from the set built from its sorted elements".into()));
    }
    for (f, ops) in [(&fa, a), (&fb, b)] {
        if f.duplicate_offered && f.out_of_order_insert_after_bulk {
            st.nontrivial(&format!("{label}{ops:?}"));
            if st.want_sample() {
                st.sample(json!({"elem": label, "history": format!("{ops:?}")}));
            }
        }
    }
    Ok(())
}

pub const C18_RULE: &str = "pairs of operation histories (from_iter, insert, extend, contains, iteration by slice / &set / into_iter, clone, reset; 0..40 ops; bulks of 0..5 items, 1 in 9 of 6..79; every bulk is offered through one of 14 iterator shapes: exact-size, owned, filter, flat_map, chain, no size hint, from_fn, take_while, skip_while, lower-bound-1, map_while, scan, peekable, fuse+inspect) over Oset<u8> with a 12-value domain, Oset<u8> over the whole range (sets of 100+ elements), Oset<(i8, String)> and Oset<Vec<u8>>, interpreted against std BTreeSet after every step (iteration order, strict increase, len, contains for members and non-members); for the pair: ==, cmp, partial_cmp and Hash depend only on the element sets and agree with sets built from the sorted elements. Non-trivial = a history with >= 1 duplicate offered and >= 1 out-of-order insert after a bulk operation; distinct = the history.";

pub fn c18_run(ctx: &Ctx) -> i32 {
    let mut rep = Report::new(ctx, C18_RULE);
    rep.assumptions = vec!["element types have a lawful total order (u8, tuples, strings, vectors)".into()];
    let n = ctx.budget(150_000, 3_000_000);
    let out = run_sharded(
        ctx,
        "C18-u8",
        n,
        || (vec(op_strategy(0u8..12), 0..40), vec(op_strategy(0u8..12), 0..40)),
        |(a, b), st| {
            st.class("elem:u8");
            c18_pair(a, b, &(0u8..12).collect::<Vec<_>>(), st, "u8")
        },
    );
    rep.absorb("E1-proptest-u8", out);
    let elem2 = || (-2i8..3, prop::sample::select(vec!["", "a", "b", "ab", "é"]).prop_map(|s| s.to_string()));
    let probes2: Vec<(i8, String)> = (-2i8..3).flat_map(|i| ["", "a", "é"].iter().map(move |s| (i, s.to_string()))).collect();
    let out = run_sharded(
        ctx,
        "C18-pair",
        n / 2,
        || (vec(op_strategy(elem2()), 0..30), vec(op_strategy(elem2()), 0..30)),
        |(a, b), st| {
            st.class("elem:(i8,String)");
            c18_pair(a, b, &probes2, st, "(i8,String)")
        },
    );
    rep.absorb("E1-proptest-tuple", out);
    let elem3 = || vec(0u8..3, 0..3);
    let probes3: Vec<Vec<u8>> = vec![vec![], vec![0], vec![0, 0], vec![1], vec![2, 1], vec![0, 1, 2]];
    let out = run_sharded(
        ctx,
        "C18-vec",
        n / 2,
        || (vec(op_strategy(elem3()), 0..30), vec(op_strategy(elem3()), 0..30)),
        |(a, b), st| {
            st.class("elem:Vec<u8>");
            c18_pair(a, b, &probes3, st, "Vec<u8>")
        },
    );
    rep.absorb("E1-proptest-vec", out);
    // large sets: the whole u8 range, bulks of up to 80 items (sets of 100+ elements)
    let out = run_sharded(
        ctx,
        "C18-wide",
        n / 3,
        || (vec(op_strategy(any::<u8>()), 0..40), vec(op_strategy(any::<u8>()), 0..12)),
        |(a, b), st| {
            st.class("elem:u8-whole-range");
            c18_pair(a, b, &(0u8..=255).collect::<Vec<_>>(), st, "u8")
        },
    );
    rep.absorb("E1-proptest-u8-wide", out);
    if ctx.tier == Tier::Thorough {
        crate::fuzzrun::run_into(ctx, &mut rep, crate::fuzzrun::Campaign { target: "oset_ops", prop: "C18", runs_total: (ctx.scale * 20_000_000.0) as u64, max_len: 400, seeds: vec![vec![5, 1, 3, 1, 3, 4, 2, 3, 3, 1, 2, 3, 1, 1, 2, 1]], dict: false });
    }
    quota_check(&mut rep, &["pair:equal-sets", "pair:different-sets"]);
    rep.finish()
}

/// Decodes fuzzer bytes into a pair of u8 histories (domain 0..12) and judges them.
pub fn c18_from_bytes(data: &[u8]) -> Result<(), Failure> {
    let mut it = data.iter().copied();
    let decode = |it: &mut dyn Iterator<Item = u8>| -> Vec<Op<u8>> {
        let mut ops = vec![];
        let n = (it.next().unwrap_or(0) % 40) as usize;
        for _ in 0..n {
            let Some(k) = it.next() else { break };
            let vals = |it: &mut dyn Iterator<Item = u8>| -> Vec<u8> {
                let m = (it.next().unwrap_or(0) % 6) as usize;
                (0..m).map(|_| it.next().unwrap_or(0) % 12).collect()
            };
            ops.push(match k % 10 {
                0 => Op::FromIter(vals(it), k / 10),
                1 | 2 | 3 => Op::Insert(it.next().unwrap_or(0) % 12),
                4 | 5 => Op::Extend(vals(it), k / 10),
                6 => Op::Contains(it.next().unwrap_or(0) % 12),
                7 => Op::Iterate,
                8 => Op::CloneSelf,
                _ => Op::Reset,
            });
        }
        ops
    };
    let a = decode(&mut it);
    let b = decode(&mut it);
    let mut st = Stats::default();
    c18_pair(&a, &b, &(0u8..12).collect::<Vec<_>>(), &mut st, "u8")
}

pub fn c18_replay(case: &Value) -> Result<(), Failure> {
    let bad = || Failure::internal("bad-replay", "C18 replay needs elem, ops_a, ops_b".into(), case.clone());
    let mut st = Stats::default();
    match case["elem"].as_str() {
        Some("u8") => {
            let (a, b) = (ops_from_json::<u8>(&case["ops_a"]).ok_or_else(bad)?, ops_from_json::<u8>(&case["ops_b"]).ok_or_else(bad)?);
            c18_pair(&a, &b, &(0u8..=255).collect::<Vec<_>>(), &mut st, "u8")
        }
        Some("(i8,String)") => {
            let (a, b) = (ops_from_json::<(i8, String)>(&case["ops_a"]).ok_or_else(bad)?, ops_from_json::<(i8, String)>(&case["ops_b"]).ok_or_else(bad)?);
            let probes: Vec<(i8, String)> = (-3i8..4).flat_map(|i| ["", "a", "b", "ab", "é"].iter().map(move |s| (i, s.to_string()))).collect();
            c18_pair(&a, &b, &probes, &mut st, "(i8,String)")
        }
        Some("Vec<u8>") => {
            let (a, b) = (ops_from_json::<Vec<u8>>(&case["ops_a"]).ok_or_else(bad)?, ops_from_json::<Vec<u8>>(&case["ops_b"]).ok_or_else(bad)?);
            let probes: Vec<Vec<u8>> = vec![vec![], vec![0], vec![0, 0], vec![1], vec![2, 1], vec![0, 1, 2]];
            c18_pair(&a, &b, &probes, &mut st, "Vec<u8>")
        }
        _ => Err(bad()),
    }
}

// ---------------------------------------------------------------------------
// C12

pub fn c12_judge(src: &str) -> Result<Option<(usize, bool, usize)>, Failure> {
    // returns (number of attributes, any multi-byte, max attributes on one declaration) when judged
    let case = text_case(src);
    let fail = |k: &str, d: String| Err(Failure::new(k, d, case.clone()));
    let toks = reftok::tokenize(src).map_err(|_| Failure::internal("not-lexically-valid", "C12 case does not lex".into(), case.clone()))?;
    let file = crate::refparse::read_file(&toks).map_err(|_| Failure::internal("not-syntactically-valid", "C12 case does not parse".into(), case.clone()))?;
    let out = match outcome::generate(src) {
        Outcome::Ok(t) => t,
        Outcome::Panic(p) => {
            // a panic while slicing attribute text is an attribute-reproduction failure; other panics are C07's
            if p.contains("char boundary") || p.contains("tokenize.rs") {
                return fail("panic-on-attribute", format!("generate panicked on an attribute: {p}"));
            }
            return Ok(None);
        }
        Outcome::Lex(at, c) => {
            // the documented rules accept the whole text (it lexed above); a lexical error that kiki raises *inside* a
            // balanced attribute means that this attribute is not reproduced at all
            if let Some(t) = toks.iter().find(|t| t.kind == crate::ast::TokKind::OuterAttribute && t.start <= at && at < t.end) {
                let shown: String = t.text.chars().take(120).collect();
                return fail("balanced-attribute-rejected", format!("generate returns Lex({at}, {c:?}) inside the balanced single-line attribute at bytes {}..{} (`{shown}`{}), which therefore is not reproduced", t.start, t.end, if t.text.len() > shown.len() { "…" } else { "" }));
            }
            return Ok(None);
        }
        _ => return Ok(None),
    };
    let lines: Vec<&str> = out.split('\n').collect();
    let mut n_attrs = 0;
    let mut multibyte = false;
    let mut max_on_one = 0;
    let mut all_attrs: Vec<&str> = vec![];
    for it in &file.items {
        let (kw, name, attrs) = match it {
            RItem::Start(_) => continue,
            RItem::Struct { attrs, name, .. } => ("pub struct ", name, attrs),
            RItem::Enum { attrs, name, .. } => ("pub enum ", name, attrs),
            RItem::Terminal { attrs, name, .. } => ("pub enum ", name, attrs),
        };
        let head = format!("{kw}{}", name.name);
        let defs: Vec<usize> = lines
            .iter()
            .enumerate()
            .filter(|(_, l)| l.strip_prefix(head.as_str()).map_or(false, |r| r.is_empty() || r.starts_with([' ', ';', '(', '{'])))
            .map(|(i, _)| i)
            .collect();
        if defs.len() != 1 {
            return fail("definition-not-found", format!("{} definition line(s) `{head}…` in the emitted text, expected exactly 1", defs.len()));
        }
        let d = defs[0];
        let k = attrs.len();
        if d < k {
            return fail("attributes-missing", format!("not enough lines before `{head}`"));
        }
        for (j, a) in attrs.iter().enumerate() {
            let got = lines[d - k + j];
            if got != a.src {
                return fail(
                    "attribute-not-verbatim",
                    format!("line {} before `{head}` is {:?}; expected attribute #{j} {:?} byte-for-byte", k - j, got, a.src),
                );
            }
            all_attrs.push(&a.src);
            if !a.src.is_ascii() {
                multibyte = true;
            }
        }
        n_attrs += k;
        max_on_one = max_on_one.max(k);
        // the line before the attribute block must not be another attribute
        if d > k && lines[d - k - 1].starts_with("#[") {
            return fail("extra-attribute", format!("unexpected attribute line {:?} before the attributes of `{head}`", lines[d - k - 1]));
        }
    }
    // nowhere else: every attribute text occurs exactly as often as it was written (markers make them unique)
    for a in all_attrs.iter().filter(|a| a.contains(MARK)) {
        let ml = MARK.len_utf8();
        let start = a.find(MARK).unwrap();
        let Some(len) = a[start + ml..].find(MARK) else { continue };
        let marker = &a[start..start + ml + len + ml];
        // occurrences, not attributes: a (fuzzed) attribute may contain the same marker text more than once
        let written: usize = all_attrs.iter().map(|x| x.matches(marker).count()).sum();
        let emitted = out.matches(marker).count();
        if emitted != written {
            return fail("attribute-elsewhere", format!("marker {marker} occurs {emitted} time(s) in the emitted text, written {written} time(s)"));
        }
    }
    // no attribute lines in the type region other than the declared ones
    if let Ok(types) = emitted::read_types(&out) {
        let emitted_attrs: usize = types.iter().map(|t| t.attrs.len()).sum();
        if emitted_attrs != n_attrs {
            return fail("attribute-count", format!("{emitted_attrs} attribute lines in the emitted type definitions, {n_attrs} written"));
        }
    }
    Ok(Some((n_attrs, multibyte, max_on_one)))
}

use crate::reftok;

fn c12_test(raw: &RawText, st: &mut Stats) -> Result<(), Failure> {
    let opts = DecorOpts { attrs: true, types: false, pool_names: true, max_type_depth: 0 };
    let mut raw = raw.clone();
    raw.grammar.source |= 2; // conflict repair on: more accepted grammars
    let (_, nm, file) = decorated_file(&raw, opts);
    let r = layout::render(&file.atoms(), &raw.layout);
    match c12_judge(&r.text)? {
        None => st.discard("not accepted by generate"),
        Some((n, multibyte, max_on_one)) => {
            st.class(&format!("attributes:{}", n.min(6)));
            text_size_classes(&r.text, st);
            let depth2 = nm.nt_attrs.iter().flatten().chain(nm.term_attrs.iter()).any(|a| nesting_depth(a) >= 3);
            if !nm.term_attrs.is_empty() {
                st.class("attrs-on:terminal-enum");
            }
            if multibyte && depth2 && max_on_one >= 2 {
                st.nontrivial(&r.text);
                if st.want_sample() {
                    st.sample(json!({"source": r.text}));
                }
            }
        }
    }
    Ok(())
}

fn nesting_depth(a: &str) -> usize {
    let mut d = 0usize;
    let mut m = 0;
    for c in a.chars() {
        match c {
            '(' | '[' | '{' => {
                d += 1;
                m = m.max(d);
            }
            ')' | ']' | '}' => d = d.saturating_sub(1),
            _ => {}
        }
    }
    m
}

/// Attributes beyond the sizes of the random generator: nesting depth 7..=40 (every depth), 63..=66, 127..=130,
/// 255..=258, 1000, 5000 with the three bracket kinds mixed by a seed-dependent pattern, text and multi-byte characters
/// at every level; on each declaration kind, alone and between two other attributes.
fn c12_deep(ctx: &Ctx) -> RunOutcome {
    let mut st = Stats::default();
    let mut fails = vec![];
    let depths: Vec<usize> = (7..=40).chain(63..=66).chain(127..=130).chain(255..=258).chain([1000, 5000]).collect();
    let open = ['(', '[', '{'];
    let close = [')', ']', '}'];
    for (k, &d) in depths.iter().enumerate() {
        for variant in 0..3u64 {
            let pat = hash_of(&(ctx.seed, d, variant));
            let kinds: Vec<usize> = (0..d).map(|i| match variant {
                0 => (pat as usize + i) % 3,
                1 => ((pat >> (i % 60)) as usize + i / 60) % 3,
                _ => (pat as usize) % 3,
            }).collect();
            let mut a = String::from("#[m");
            for (i, &b) in kinds.iter().enumerate() {
                a.push(open[b]);
                if i % 5 == variant as usize {
                    a.push_str(["é", "x ", "𝄞", "\"q\"", "€="][i % 5]);
                }
            }
            for (i, &b) in kinds.iter().enumerate().rev() {
                if i % 7 == 0 {
                    a.push_str("中,");
                }
                a.push(close[b]);
            }
            a.push(']');
            let text = match (k as u64 + variant) % 4 {
                0 => format!("start S\n{a}\nstruct S\nterminal T {{ }}"),
                1 => format!("start S\n#[before]\n{a}\n#[after(1)]\nenum S {{ A }}\nterminal T {{ }}"),
                2 => format!("start S struct S($X)\n#[b] {a}\nterminal T {{ $X: () }}"),
                _ => format!("{a} {a}\nstruct S start S\n#[z]\nterminal T {{ }} {a} struct U"),
            };
            st.evaluations += 1;
            match c12_judge(&text) {
                Ok(Some(_)) => {
                    st.class("deep-attribute:reproduced");
                    st.nontrivial(&text);
                }
                Ok(None) => st.discard("deep attribute: not accepted by generate (not a lexical error inside the attribute)"),
                Err(f) => fails.push(f),
            }
        }
    }
    RunOutcome { stats: st, failures: fails }
}

pub fn c12_replay(case: &Value) -> Result<(), Failure> {
    c12_judge(&case_text(case)?).map(|_| ())
}

pub const C12_RULE: &str = "accepted grammars with 0..4 generated attributes on every declaration kind (struct, enum, terminal): balanced nesting of () [] {} to depth 6, ASCII punctuation incl. quotes / # $, tab, CR, 2-, 3- and 4-byte characters, U+00A0, U+2028, each carrying a unique marker; random layouts between attribute and keyword; plus a fixed family of deeply nested attributes (every depth 7..40, around 64 / 128 / 256, 1000, 5000; bracket kinds mixed by a seed-dependent pattern) on every declaration kind. Oracle (byte level): a lexical error raised inside an attribute that the documented rules accept is a violation; the lines immediately before `pub struct|enum <Name>` are exactly the written attributes in order, no further attribute line precedes them, every marker occurs in the whole output exactly as often as written, and the number of attribute lines in the emitted type definitions equals the number written. Non-trivial = >= 1 attribute with a multi-byte character, >= 1 nested to depth >= 2 inside the outer brackets and >= 2 attributes on one declaration; distinct = the source text.";

pub fn c12_run(ctx: &Ctx) -> i32 {
    let mut rep = Report::new(ctx, C12_RULE);
    rep.assumptions = vec!["what precedes the first attribute of a declaration (blank lines) is not judged, only that it is not another attribute".into()];
    regress(ctx, &mut rep, "C12", c12_replay);
    let out = run_sharded(ctx, "C12", ctx.budget(150_000, 3_000_000), || raw_text(&[0]), c12_test);
    rep.absorb("E1-proptest", out);
    rep.absorb("E0-deep-and-wide-attributes", c12_deep(ctx));
    if ctx.tier == Tier::Thorough {
        crate::fuzzrun::run_into(ctx, &mut rep, crate::fuzzrun::Campaign { target: "text_frontend", prop: "C12", runs_total: (ctx.scale * 20_000_000.0) as u64, max_len: 2048, seeds: crate::fuzzrun::text_seeds(), dict: true });
        crate::fuzzrun::run_into(ctx, &mut rep, crate::fuzzrun::raw_campaign("C12", (ctx.scale * 500_000.0) as u64));
    }
    quota_check(&mut rep, &["attrs-on:terminal-enum", "attributes:6"]);
    rep.finish()
}

// ---------------------------------------------------------------------------
// C13 (text level)

pub fn c13_judge(src: &str) -> Result<Option<(usize, usize, usize)>, Failure> {
    // returns (max type depth, max generic arity, number of use sites of the deepest type) when judged
    let case = text_case(src);
    let fail = |k: &str, d: String| Err(Failure::new(k, d, case.clone()));
    let toks = reftok::tokenize(src).map_err(|_| Failure::internal("not-lexically-valid", "C13 case does not lex".into(), case.clone()))?;
    let file = crate::refparse::read_file(&toks).map_err(|_| Failure::internal("not-syntactically-valid", "C13 case does not parse".into(), case.clone()))?;
    let Some((sp, nm)) = spec::from_rfile(&file) else {
        return Err(Failure::internal("not-wellformed", "C13 case is not a well-formed grammar".into(), case));
    };
    let Outcome::Ok(out) = outcome::generate(src) else { return Ok(None) };
    let types = match emitted::read_types(&out) {
        Ok(t) => t,
        Err(e) => return Err(Failure::internal("unreadable-type-region", format!("the harness cannot read the emitted type definitions: {e}"), case.clone())),
    };
    let want_tokens: Vec<Vec<String>> = nm.term_types.iter().map(|t| t.token_vec()).collect();
    let same = |site: &str, tname: &str, got: &str, t: usize| -> Result<(), Failure> {
        match emitted::type_tokens(got) {
            Ok(tok) if tok == want_tokens[t] => Ok(()),
            Ok(tok) => Err(Failure::new(
                "payload-type-differs",
                format!("{site}: terminal {tname} is declared with type tokens {:?}, the emitted text has {:?} (`{got}`)", want_tokens[t], tok),
                case.clone(),
            )),
            Err(e) => Err(Failure::new("payload-type-differs", format!("{site}: terminal {tname}: {e}"), case.clone())),
        }
    };
    // terminal enum
    let Some(te) = types.iter().find(|t| t.name == nm.term_enum && t.is_enum) else {
        return fail("terminal-enum-missing", format!("no `enum {}` in the emitted type definitions", nm.term_enum));
    };
    if te.variants.len() != sp.n_terms {
        return fail("terminal-enum-variants", format!("terminal enum has {} variants, {} declared", te.variants.len(), sp.n_terms));
    }
    for (t, (vn, fs)) in te.variants.iter().enumerate() {
        match fs {
            EFs::Tuple(v) if v.len() == 1 && *vn == nm.terms[t] => same("terminal enum", vn, &v[0].1, t)?,
            _ => return fail("terminal-enum-variants", format!("terminal enum variant #{t} is {vn} {fs:?}; expected {}(<type>)", nm.terms[t])),
        }
    }
    // every field of that terminal
    let mut uses = vec![0usize; sp.n_terms];
    for (i, n) in sp.nts.iter().enumerate() {
        let Some(et) = types.iter().find(|t| t.name == nm.nts[i]) else {
            return fail("type-missing", format!("no definition of {} in the emitted text", nm.nts[i]));
        };
        if et.variants.len() != n.variants.len() {
            // C06 judges shapes; here only the payload types of matching fields
            continue;
        }
        for (j, v) in n.variants.iter().enumerate() {
            let used: Vec<&spec::SField> = v.fields.iter().filter(|f| f.used).collect();
            let got: Vec<&String> = match &et.variants[j].1 {
                EFs::Unit => vec![],
                EFs::Named(f) => f.iter().map(|(_, _, t)| t).collect(),
                EFs::Tuple(f) => f.iter().map(|(_, t)| t).collect(),
            };
            if got.len() != used.len() {
                continue;
            }
            for (f, g) in used.iter().zip(got) {
                if let Sym::T(t) = f.sym {
                    uses[t] += 1;
                    same(&format!("field of {}", nm.nts[i]), &nm.terms[t], g, t)?;
                }
            }
            let _ = Form::Empty;
        }
    }
    // helper code
    let helpers = match emitted::read_helper_types(&out) {
        Ok(h) => h,
        Err(e) => return Err(Failure::internal("unreadable-helpers", format!("the harness cannot read the emitted helper code: {e}"), case.clone())),
    };
    for (t, tn) in nm.terms.iter().enumerate() {
        let Some((_, ty)) = helpers.node_variants.iter().find(|(n, _)| n == tn) else {
            return fail("node-variant-missing", format!("no node variant for terminal {tn}"));
        };
        same("node enum", tn, ty, t)?;
        let suffix = format!("_{t}");
        let Some((_, ty)) = helpers.try_into.iter().find(|(n, _)| n.ends_with(&suffix)) else {
            return fail("extractor-missing", format!("no try_into_*_{t} helper for terminal {tn}"));
        };
        same("extraction helper", tn, ty, t)?;
    }
    if helpers.try_into.len() != sp.n_terms {
        return fail("extractor-count", format!("{} extraction helpers for {} terminals", helpers.try_into.len(), sp.n_terms));
    }
    let mut best = (0, 0, 0);
    for (t, ty) in nm.term_types.iter().enumerate() {
        let cand = (ty.depth(), ty.max_args(), uses[t] + 3);
        if cand.0 >= 2 && cand.1 >= 2 && cand > best {
            best = cand;
        }
    }
    Ok(Some(best))
}

fn c13_test(raw: &RawText, st: &mut Stats) -> Result<(), Failure> {
    let opts = DecorOpts { attrs: false, types: true, pool_names: true, max_type_depth: 6 };
    let mut raw = raw.clone();
    raw.grammar.source |= 2;
    let (_, _, file) = decorated_file(&raw, opts);
    let r = layout::render(&file.atoms(), &raw.layout);
    match c13_judge(&r.text)? {
        None => st.discard("not accepted by generate"),
        Some((depth, arity, sites)) => {
            st.class(&format!("max-type-depth:{}", depth.min(6)));
            text_size_classes(&r.text, st);
            if depth >= 2 && arity >= 2 && sites >= 2 {
                st.nontrivial(&r.text);
                if st.want_sample() {
                    st.sample(json!({"source": r.text}));
                }
            }
        }
    }
    Ok(())
}

/// Deep nesting (text only): depth up to 256.
fn c13_deep(rep: &mut Report) {
    let mut st = Stats::default();
    let mut fails = vec![];
    for depth in [1usize, 2, 3, 8, 17, 64, 128, 256] {
        for arity in [1usize, 2, 3] {
            let mut ty = String::from("()");
            for d in 0..depth {
                let args: Vec<String> = (0..arity).map(|k| if k == d % arity { ty.clone() } else { format!("a{k}::B") }).collect();
                ty = format!("p{d}::Q<{}>", args.join(" , "));
            }
            let src = format!("start S struct S {{ f: $T _: $U g: $T }} terminal K {{ $T: {ty} $U: std::vec::Vec<()> }}");
            st.evaluations += 1;
            st.class("deep-nesting");
            st.nontrivial(&(depth, arity));
            match c13_judge(&src) {
                Ok(Some(_)) => {}
                Ok(None) => fails.push(Failure::internal("deep-not-accepted", format!("deep type grammar (depth {depth}) not accepted"), text_case(&src))),
                Err(f) => fails.push(f),
            }
        }
    }
    rep.absorb("deep-nesting-enumeration", RunOutcome { stats: st, failures: fails });
}

pub fn c13_replay(case: &Value) -> Result<(), Failure> {
    c13_judge(&case_text(case)?).map(|_| ())
}

pub const C13_RULE: &str = "accepted grammars whose terminals carry generated payload type expressions (unit, paths of 1..5 segments, generics with 1..4 arguments nested to depth 6; plus an enumeration nested to depth 256), used in named and tuple fields of structs and variants. Oracle (text): the type text at every use site (terminal enum variant, each field of that terminal, node helper enum, extraction helper return type) is re-tokenised and must equal the declaration's token list. Non-trivial = some terminal's type has nesting depth >= 2 and a generic with >= 2 arguments and is used at >= 2 sites; distinct = the source text. (The compiled C06 client additionally lets rustc decide that emitted types denote the written types.)";

pub fn c13_run(ctx: &Ctx) -> i32 {
    let mut rep = Report::new(ctx, C13_RULE);
    rep.assumptions = vec!["use sites are located by the documented layout of the emitted text (one field / variant per line)".into()];
    regress(ctx, &mut rep, "C13", c13_replay);
    c13_deep(&mut rep);
    let out = run_sharded(ctx, "C13", ctx.budget(150_000, 3_000_000), || raw_text(&[0]), c13_test);
    rep.absorb("E1-proptest", out);
    if ctx.tier == Tier::Thorough {
        crate::fuzzrun::run_into(ctx, &mut rep, crate::fuzzrun::Campaign { target: "text_frontend", prop: "C13", runs_total: (ctx.scale * 20_000_000.0) as u64, max_len: 2048, seeds: crate::fuzzrun::text_seeds(), dict: true });
        crate::fuzzrun::run_into(ctx, &mut rep, crate::fuzzrun::raw_campaign("C13", (ctx.scale * 500_000.0) as u64));
    }
    quota_check(&mut rep, &["max-type-depth:2", "max-type-depth:4"]);
    rep.finish()
}
