use kiki_verif::engine::{self, Ctx, Tier};
use kiki_verif::props;
use std::path::PathBuf;

fn usage() -> ! {
    eprintln!("usage: verif check <C01..C18> --tier quick|thorough\n       verif replay <id> <file>\n       verif worker <kind> ...");
    std::process::exit(2)
}

fn ctx(prop: &str, tier: Tier) -> Ctx {
    let seed = std::env::var("VERIF_SEED").ok().and_then(|s| s.trim().parse::<i64>().ok()).unwrap_or(0) as u64;
    let root = PathBuf::from(kiki_verif::gen::corpus_dir());
    let root = root.canonicalize().unwrap_or(root);
    let threads = std::env::var("VERIF_THREADS")
        .ok()
        .and_then(|s| s.parse().ok())
        .unwrap_or_else(|| std::thread::available_parallelism().map(|n| n.get()).unwrap_or(4).min(16));
    let scale = std::env::var("VERIF_SCALE").ok().and_then(|s| s.parse().ok()).unwrap_or(1.0);
    Ctx { prop: prop.to_string(), tier, seed, root, threads, scale, shrink_iters: 4000 }
}

fn main() {
    let args: Vec<String> = std::env::args().collect();
    if args.len() < 2 {
        usage();
    }
    match args[1].as_str() {
        "check" => {
            if args.len() < 3 {
                usage();
            }
            let id = args[2].as_str();
            let mut tier = match std::env::var("VERIF_TIER").as_deref() {
                Ok("thorough") => Tier::Thorough,
                _ => Tier::Quick,
            };
            let mut i = 3;
            while i < args.len() {
                if args[i] == "--tier" && i + 1 < args.len() {
                    tier = match args[i + 1].as_str() {
                        "quick" => Tier::Quick,
                        "thorough" => Tier::Thorough,
                        _ => usage(),
                    };
                    i += 1;
                }
                i += 1;
            }
            engine::install_quiet_panic_hook();
            let c = ctx(id, tier);
            engine::start_global_watchdog(&c.prop, &c.root);
            let code = props::run(&c);
            std::process::exit(code);
        }
        "replay" => {
            if args.len() < 4 {
                usage();
            }
            engine::install_quiet_panic_hook();
            let c = ctx(&args[2], Tier::Quick);
            engine::start_global_watchdog(&c.prop, &c.root);
            let code = props::replay(&c, &args[3]);
            std::process::exit(code);
        }
        "stress-times" => {
            engine::install_quiet_panic_hook();
            for tier in [Tier::Quick, Tier::Thorough] {
                for (name, text) in kiki_verif::props::total::stress_inputs(tier) {
                    let t = std::time::Instant::now();
                    let o = kiki_verif::outcome::generate(&text);
                    println!("{:?} {:>8.3}s {:>8} bytes  {}  -> {}", tier, t.elapsed().as_secs_f64(), text.len(), name, o.brief().chars().take(60).collect::<String>());
                }
            }
        }
        "worker" => {
            let code = props::worker(&args[2..]);
            std::process::exit(code);
        }
        _ => usage(),
    }
}
