#!/usr/bin/env python3
"""Deliberate breakages used to test the sensitivity of the checks (DESIGN.md §7).

usage: own_mutations.py list
       own_mutations.py run <name>|all [--tests] [--tier quick]   apply to /repo, run the listed checks, revert
       own_mutations.py diff <name>                                 print the patch

Every mutation is a list of (file, old, new) replacements on /repo's committed tree.
Nothing is ever committed to /repo; the working tree is restored with `git checkout -- .`.
"""
import json, os, subprocess, sys, time

REPO = "/repo"
VERIF = os.path.dirname(os.path.dirname(os.path.abspath(__file__)))
T2R = "kiki/src/pipeline/table_to_rust.rs"
TOK = "kiki/src/pipeline/tokenize.rs"
M2T = "kiki/src/pipeline/machine_to_table.rs"
A2M = "kiki/src/pipeline/validated_ast_to_machine/mod.rs"
FSM = "kiki/src/pipeline/validated_ast_to_machine/first_set_map.rs"
NT = "kiki/src/pipeline/validate_ast/nonterminals.rs"
DEF = "kiki/src/pipeline/validate_ast/defined_identifiers.rs"
LIB = "kiki/src/lib.rs"
OSET = "kiki/src/data/oset.rs"
ERRS = "kiki/src/pipeline/unexpected_token_or_eof_to_kiki_err.rs"
T2S = "kiki/src/pipeline/validate_ast/type_to_string.rs"
C2A = "kiki/src/pipeline/cst_to_ast.rs"

M = {}

def mut(name, expect, edits, note=""):
    M[name] = dict(expect=expect, edits=edits, note=note)

mut("first_never_epsilon", ["C04", "C17", "C01"], [(FSM, "    out.contains_epsilon |= new.contains_epsilon;\n", "    out.contains_epsilon |= false && new.contains_epsilon;\n")],
    "FIRST fixpoint never records nullability")
mut("closure_ignores_first_of_suffix", ["C17", "C04"], [(A2M, """    if first.contains_epsilon {
        augment_with_lookahead(first, lookahead)
    } else {
        convert_first_set_to_augmented_as_is(first)
    }""", """    if first.contains_epsilon || !first.terminals.is_empty() {
        augment_with_lookahead(first, lookahead)
    } else {
        convert_first_set_to_augmented_as_is(first)
    }""")], "closure lookaheads over-approximated: parent's lookahead always added")
mut("merge_no_reenqueue", ["C17", "C04", "C01"], [(A2M, """        if were_items_added {
            self.queue.push_back(index);
        }""", """        if were_items_added && false {
            self.queue.push_back(index);
        }""")], "new lookaheads merged into an existing state are not propagated")
mut("canonical_lr1_no_merge", ["C04", "C17"], [(A2M, """            .any(|super_| sub.rule_index == super_.rule_index && sub.dot == super_.dot)""",
    """            .any(|super_| sub == super_)""")], "states merged only when identical incl. lookaheads: canonical LR(1), accepts LR(1)-not-LALR(1) grammars")
mut("reduce_reduce_silent", ["C04"], [(M2T, """            if *existing_action == action {
                return Ok(());
            }""", """            if *existing_action == action {
                return Ok(());
            }
            if matches!((existing_action, &action), (Action::Reduce(_), Action::Reduce(_))) {
                return Ok(());
            }""")], "reduce/reduce conflicts resolved silently in favour of the first rule")
mut("accept_reduce_unchecked", ["C04"], [(M2T, """            if *existing_action == action {
                return Ok(());
            }""", """            if *existing_action == action {
                return Ok(());
            }
            if matches!(existing_action, Action::Accept) || matches!(action, Action::Accept) {
                return Ok(());
            }""")], "accept/reduce conflicts ignored")
mut("children_wrong_order", ["C02"], [(T2R, """        let child_vars: String = fields
            .iter()
            .enumerate()
            .rev()
            .map(|(field_index, field)| match field {
                TupleField::Skipped(_) => "nodes.pop().unwrap();\\n".to_owned(),""", """        let child_vars: String = fields
            .iter()
            .enumerate()
            .map(|(field_index, field)| match field {
                TupleField::Skipped(_) => "nodes.pop().unwrap();\\n".to_owned(),""")], "tuple fieldset children popped in declaration order instead of reverse")
mut("truncate_off_by_one", ["C01", "C02", "C03"], [(T2R, """        format!(
            r#"{child_vars}
states.truncate(states.len() - {num_fields});

(
    {node_enum_name}::{parent_type_name}({constructor_name}{empty_str_or_parenthesized_fields}),""", """        let num_fields = if num_fields >= 4 { num_fields - 1 } else { num_fields };
        format!(
            r#"{child_vars}
states.truncate(states.len() - {num_fields});

(
    {node_enum_name}::{parent_type_name}({constructor_name}{empty_str_or_parenthesized_fields}),""")], "tuple rules with >= 4 symbols pop one state too few")
mut("error_arm_double_next", ["C03"], [(T2R, """            {action_enum_name}::{ACTION_ERR_VARIANT_NAME} => {{
                return Err(quasiterminals.next().unwrap().try_into_terminal().ok());""", """            {action_enum_name}::{ACTION_ERR_VARIANT_NAME} => {{
                let offending = quasiterminals.next().unwrap().try_into_terminal().ok();
                if offending.is_some() {{ let _ = quasiterminals.next(); }}
                return Err(offending);""")], "error arm pulls one more item from the iterator after the offending token (snapshots change => tests fail; kept to show C03 sees over-consumption)")
mut("ascii_whitespace_only", ["C08", "C16"], [(TOK, "        if current.is_whitespace() {", "        if current.is_ascii_whitespace() {")], "only ASCII whitespace is skipped")
mut("double_colon_as_two", ["C08", "C09"], [(TOK, """        if current == ':' {
            self.out.push(Token::DoubleColon(start));""", """        if current == ':' && false {
            self.out.push(Token::DoubleColon(start));""")], "`::` tokenised as two colons")
mut("keyword_len_off_by_one", ["C09"], [(ERRS, 'Token::TerminalKw(_) => "terminal".len(),', 'Token::TerminalKw(_) => "terminal".len() - 1,')], "Parse error span of the `terminal` keyword one byte short")
mut("variant_sequence_check_removed", ["C10"], [(NT, "    assert_variants_have_unique_field_symbol_sequences(variants)?;\n", "")], "duplicate symbol sequences accepted")
mut("terminal_enum_name_not_in_clash", ["C10"], [(DEF, "    define_terminal_enum_name(&mut seen, file)?;\n", "")], "terminal enum name may clash with a symbol")
mut("conflict_state_index_off", ["C11"], [(M2T, """                state_index,
                items: ((*existing_item).clone(), item.clone()),""", """                state_index: StateIndex(state_index.0.saturating_sub(1)),
                items: ((*existing_item).clone(), item.clone()),""")], "reported state index is the previous state")
mut("conflict_second_item_is_first", ["C11"], [(M2T, "items: ((*existing_item).clone(), item.clone()),", "items: ((*existing_item).clone(), (*existing_item).clone()),")], "second conflict item cloned from the first")
mut("attributes_reversed", ["C12"], [(T2R, 'attributes.iter().map(|a| format!("{}\\n", &a.src)).collect()', 'attributes.iter().rev().map(|a| format!("{}\\n", &a.src)).collect()')], "attributes emitted in reverse order")
mut("type_args_reversed", ["C13"], [(T2S, """        .iter()
        .map(type_to_string)
        .collect::<Vec<String>>()
        .join(", ");""", """        .iter()
        .rev()
        .map(type_to_string)
        .collect::<Vec<String>>()
        .join(", ");""")], "generic arguments emitted in reverse order")
mut("conflict_choice_by_hash_order", ["C14"], [(M2T, """        for i in 0..self.machine.states.len() {
            self.add_state_actions_to_table(builder, StateIndex(i))?;
        }
        Ok(())""", """        let order: std::collections::HashSet<usize> = (0..self.machine.states.len()).collect();
        for i in order {
            self.add_state_actions_to_table(builder, StateIndex(i))?;
        }
        Ok(())""")], "states scanned in HashSet iteration order: which conflict is reported depends on the hash seed")
mut("digest_of_trimmed_source", ["C15"], [(T2R, "let grammar_sha256 = sha256::digest(self.grammar_src);", "let grammar_sha256 = sha256::digest(self.grammar_src.trim_end());")], "digest of the source without trailing whitespace")
mut("hash_scan_ignores_block_limit", ["C15"], [(LIB, """        if !line.starts_with("//") {
            return None;
        }""", """        if !line.starts_with("//") && !line.is_empty() {
            return None;
        }""")], "header scan continues across blank lines")
mut("comment_ends_at_cr", ["C16", "C08"], [(TOK, "        if current == '\\n' {\n            self.state = State::Main;\n        }\n\n        Ok(())", "        if current == '\\n' || current == '\\r' {\n            self.state = State::Main;\n        }\n\n        Ok(())")], "a comment also ends at a lone CR")
mut("oset_extend_no_dedup", ["C18"], [(OSET, "        self.raw.sort_unstable();\n        self.raw.dedup();", "        self.raw.sort_unstable();")], "extend keeps duplicates")
mut("oset_insert_wrong_index", ["C18"], [(OSET, "Err(i) => self.raw.insert(i, item),", "Err(i) => self.raw.insert(if i > 2 { i - 1 } else { i }, item),")], "insert misplaces elements in sets with > 2 elements")
mut("node_not_uniquified", ["C05"], [(T2R, 'let node_enum_name = create_unique_identifier("Node", used_identifiers);', 'let node_enum_name = "Node".to_string();')], "helper enum Node clashes with a user type called Node")
mut("panic_on_line_separator", ["C07"], [(TOK, "        if current.is_whitespace() {", "        if current == '\\u{2028}' { let v: Vec<u8> = vec![]; let _ = v[current_index.0 + 1]; }\n        if current.is_whitespace() {")], "index out of bounds on U+2028")
mut("underscore_field_kept_in_tuple", ["C06", "C02"], [(T2R, """            .filter_map(|field| match field {
                TupleField::Skipped(_) => None,
                TupleField::Used(IdentOrTerminalIdent::Ident(field_type)) => {
                    let field_type_name = &field_type.name;
                    Some(format!("{pub_}Box<{field_type_name}>,"))""", """            .filter_map(|field| match field {
                TupleField::Skipped(IdentOrTerminalIdent::Ident(field_type)) if false => {
                    let field_type_name = &field_type.name;
                    Some(format!("{pub_}Box<{field_type_name}>,"))
                }
                TupleField::Skipped(_) => None,
                TupleField::Used(IdentOrTerminalIdent::Ident(field_type)) => {
                    let field_type_name = &field_type.name;
                    Some(format!("Box<{field_type_name}>,"))""")], "tuple struct fields lose `pub` again (the repaired defect returns)")
mut("err_cell_as_reduce_on_eof", ["C17", "C03", "C01"], [(T2R, """                let action = self.table.action(state_index, quasiterminal);
""", """                let action = self.table.action(state_index, quasiterminal);
                let action = match (action, quasiterminal) {
                    (Action::Err, Quasiterminal::Eof) if state_index.0 % 5 == 3 && self.table.gotos.len() > 12 => self
                        .table
                        .terminals
                        .iter()
                        .map(|t| self.table.action(state_index, Quasiterminal::Terminal(t)))
                        .find(|a| matches!(a, Action::Reduce(_)))
                        .unwrap_or(action),
                    _ => action,
                };
""")], "default-reduction style fill of some end-of-input cells")
mut("named_field_order_swapped", ["C06"], [(T2R, """        let fields_indent_1 = fieldset
            .fields
            .iter()
            .filter_map(|field| match (&field.name, &field.symbol) {
                (IdentOrUnderscore::Underscore(_), _) => None,""", """        let fields_indent_1 = fieldset
            .fields
            .iter()
            .rev()
            .filter_map(|field| match (&field.name, &field.symbol) {
                (IdentOrUnderscore::Underscore(_), _) => None,""")], "named fields emitted in reverse declaration order (type-checks; only the text-order oracle sees it)")

def sh(cmd, cwd=None, timeout=3600):
    return subprocess.run(cmd, shell=True, cwd=cwd, capture_output=True, text=True, timeout=timeout)

def apply(name):
    # evidence/ must only ever hold results from the unchanged tree: keep it aside while /repo is mutated
    keep = os.path.join(VERIF, ".work", "evidence.keep")
    sh(f"rm -rf {keep} && mkdir -p {os.path.dirname(keep)} && cp -r {os.path.join(VERIF, 'evidence')} {keep}")
    for f, old, new in M[name]["edits"]:
        p = os.path.join(REPO, f)
        s = open(p).read()
        if s.count(old) != 1:
            raise SystemExit(f"{name}: pattern occurs {s.count(old)} times in {f}")
        open(p, "w").write(s.replace(old, new))

def revert():
    sh("git checkout -- .", cwd=REPO)
    keep = os.path.join(VERIF, ".work", "evidence.keep")
    if os.path.isdir(keep):
        sh(f"rm -rf {os.path.join(VERIF, 'evidence')} && mv {keep} {os.path.join(VERIF, 'evidence')}")

def run(name, tests, tier, only=None):
    assert sh("git status --porcelain", cwd=REPO).stdout.strip() == "", "/repo is dirty"
    apply(name)
    res = {"name": name, "note": M[name]["note"]}
    try:
        res["diff"] = sh("git diff", cwd=REPO).stdout
        if tests:
            t = sh("cargo test --workspace --offline 2>&1 | grep -E '^test result|^error' ", cwd=REPO)
            res["tests"] = "pass" if ("FAILED" not in t.stdout and "error" not in t.stdout and "failed" not in t.stdout.replace("0 failed", "")) else "FAIL"
            # kiki_e2e_test/build.rs rewrites tracked example outputs; restore them but keep the mutation
            for f, old, new in M[name]["edits"]:
                pass
        checks = only or M[name]["expect"]
        res["checks"] = {}
        for c in checks:
            t0 = time.time()
            r = sh(f"./check.sh {c} {tier}", cwd=VERIF)
            viol = [l for l in r.stdout.splitlines() if l.startswith("VIOLATION")]
            res["checks"][c] = {"exit": r.returncode, "violations": len(viol), "wall_s": round(time.time() - t0, 1),
                                "first": (r.stderr.split("--- violation")[1][:400] if "--- violation" in r.stderr else "")}
    finally:
        revert()
        sh("git clean -fdq -- kiki kiki_e2e_test", cwd=REPO)
    return res

# size thresholds (reached only by the scaled grammar families / large seeds)
mut("shift_target_wraps_at_256", ["C17", "C01"], [(M2T, """            Action::Shift(dest),
        )
    }

    fn add_original_reduction_to_table(""", """            Action::Shift(StateIndex(dest.0 % 256)),
        )
    }

    fn add_original_reduction_to_table(""")], "shift targets stored modulo 256 (a u8 state index): needs an automaton with > 256 states")
mut("terminal_column_wraps_at_64", ["C17", "C01", "C07"], [("kiki/src/data/table.rs", """                .position(|t| t == terminal)
                .expect("Terminal not found in table"),""", """                .position(|t| t == terminal)
                .map(|i| i % 64)
                .expect("Terminal not found in table"),""")], "ACTION columns computed modulo 64: needs > 64 terminals")

mut("emitted_goto_lookup_truncates_state_to_u8", ["C01", "C02", "C03"], [(T2R, """    {goto_table_name}[top_state as usize][new_node_kind as usize]""", """    {goto_table_name}[top_state as u8 as usize][new_node_kind as usize]""")],
    "the emitted GOTO lookup truncates the state to u8: only the compiled parser of a grammar with > 256 states shows it (tables and their text are right)")

# length / position thresholds (reached only by the long names, attributes, comments and > 64 KiB leads of the text generators)
mut("positions_wrap_at_16_bits", ["C08", "C09", "C10", "C16"], [(TOK, """            self.handle_char(c, ByteIndex(c_index))?;""", """            self.handle_char(c, ByteIndex(c_index as u16 as usize))?;""")],
    "the tokenizer's character positions are truncated to 16 bits: needs a token or an error beyond byte 65 535")
mut("identifier_length_capped_at_255", ["C08", "C09", "C13", "C06"], [(TOK, """        if current.is_ascii_alphanumeric() || current == '_' {
            self.state = State::Ident(start, ByteIndex(end.0 + current.len_utf8()));
            Ok(())""", """        if (current.is_ascii_alphanumeric() || current == '_') && end.0 - start.0 < 255 {
            self.state = State::Ident(start, ByteIndex(end.0 + current.len_utf8()));
            Ok(())""")], "identifiers are cut after 255 bytes (the rest becomes the next identifier)")
mut("parse_error_text_capped_at_4096", ["C09"], [(ERRS, """    let content = src[start.0..end.0].to_string();""", """    let content = src[start.0..end.0].chars().take(4096).collect::<String>();""")],
    "the source text reported with a parse error is cut after 4096 characters: needs an offending attribute longer than that")

mut("oset_insert_appends_in_large_sets", ["C18"], [(OSET, """            Err(i) => self.raw.insert(i, item),""", """            Err(i) if self.raw.len() < 32 => self.raw.insert(i, item),
            Err(_) => self.raw.push(item),""")], "insert appends instead of inserting in place once the set has 32 elements: needs sets of > 32 elements")

def main():
    a = sys.argv[1:]
    if not a or a[0] == "list":
        for k, v in M.items():
            print(f"{k:40s} expect {','.join(v['expect']):14s} {v['note']}")
        return
    if a[0] == "diff":
        apply(a[1]); print(sh("git diff", cwd=REPO).stdout); revert(); return
    if a[0] == "run":
        names = list(M) if a[1] == "all" else a[1].split(",")
        tests = "--tests" in a
        tier = "quick"
        only = None
        if "--checks" in a:
            only = a[a.index("--checks") + 1].split(",")
        out = []
        for n in names:
            r = run(n, tests, tier, only)
            caught = [c for c, v in r["checks"].items() if v["exit"] == 1]
            print(f"{n:40s} tests={r.get('tests','-'):5s} caught_by={caught} all={ {c:(v['exit'],v['wall_s']) for c,v in r['checks'].items()} }", flush=True)
            for c, v in r["checks"].items():
                if v["first"]:
                    print("     ", c, v["first"].replace("\n", " ")[:300])
            r.pop("diff", None)
            out.append(r)
        os.makedirs(os.path.join(VERIF, ".work"), exist_ok=True)
        json.dump(out, open(os.path.join(VERIF, ".work", "own_mutations_last.json"), "w"), indent=1)

main()
