//! R2 — the published Kiki grammar (parser.kiki / USER_GUIDE.md) as data, an
//! Earley-based acceptance / first-bad-token oracle over token kinds, and a
//! hand-written recursive-descent reader that builds a position-annotated
//! reference AST for token lists the grammar accepts.

use crate::ast::*;
use crate::cfg::{self, Cfg, Rule, Sets, S};
use crate::reftok::RTok;
use std::sync::OnceLock;

pub struct KikiGrammar {
    pub cfg: Cfg,
    pub sets: Sets,
}

fn t(k: TokKind) -> S {
    S::T(k.index() as u16)
}

pub fn kiki_grammar() -> &'static KikiGrammar {
    static G: OnceLock<KikiGrammar> = OnceLock::new();
    G.get_or_init(|| {
        use TokKind::*;
        const FILE: u16 = 0;
        const OPT_ITEMS: u16 = 1;
        const FILE_ITEM: u16 = 2;
        const STRUCT: u16 = 3;
        const ENUM: u16 = 4;
        const TERMINAL_ENUM: u16 = 5;
        const OPT_ATTRS: u16 = 6;
        const FIELDSET: u16 = 7;
        const NAMED_FIELDSET: u16 = 8;
        const NAMED_FIELDS: u16 = 9;
        const NAMED_FIELD: u16 = 10;
        const TUPLE_FIELDSET: u16 = 11;
        const TUPLE_FIELDS: u16 = 12;
        const TUPLE_FIELD: u16 = 13;
        const OPT_VARIANTS: u16 = 14;
        const VARIANT: u16 = 15;
        const OPT_TVARIANTS: u16 = 16;
        const TVARIANT: u16 = 17;
        const TYPE: u16 = 18;
        const PATH: u16 = 19;
        const COMPLEX: u16 = 20;
        const TYPES: u16 = 21;
        const ID_OR_US: u16 = 22;
        const ID_OR_TID: u16 = 23;
        let n = S::N;
        let rules: Vec<(u16, Vec<S>)> = vec![
            (FILE, vec![n(OPT_ITEMS)]),
            (OPT_ITEMS, vec![]),
            (OPT_ITEMS, vec![n(OPT_ITEMS), n(FILE_ITEM)]),
            (FILE_ITEM, vec![t(StartKw), t(Ident)]),
            (FILE_ITEM, vec![n(STRUCT)]),
            (FILE_ITEM, vec![n(ENUM)]),
            (FILE_ITEM, vec![n(TERMINAL_ENUM)]),
            (STRUCT, vec![n(OPT_ATTRS), t(StructKw), t(Ident), n(FIELDSET)]),
            (ENUM, vec![n(OPT_ATTRS), t(EnumKw), t(Ident), t(LCurly), n(OPT_VARIANTS), t(RCurly)]),
            (TERMINAL_ENUM, vec![n(OPT_ATTRS), t(TerminalKw), t(Ident), t(LCurly), n(OPT_TVARIANTS), t(RCurly)]),
            (OPT_ATTRS, vec![]),
            (OPT_ATTRS, vec![n(OPT_ATTRS), t(OuterAttribute)]),
            (FIELDSET, vec![]),
            (FIELDSET, vec![n(NAMED_FIELDSET)]),
            (FIELDSET, vec![n(TUPLE_FIELDSET)]),
            (NAMED_FIELDSET, vec![t(LCurly), n(NAMED_FIELDS), t(RCurly)]),
            (NAMED_FIELDS, vec![n(NAMED_FIELD)]),
            (NAMED_FIELDS, vec![n(NAMED_FIELDS), n(NAMED_FIELD)]),
            (NAMED_FIELD, vec![n(ID_OR_US), t(Colon), n(ID_OR_TID)]),
            (TUPLE_FIELDSET, vec![t(LParen), n(TUPLE_FIELDS), t(RParen)]),
            (TUPLE_FIELDS, vec![n(TUPLE_FIELD)]),
            (TUPLE_FIELDS, vec![n(TUPLE_FIELDS), n(TUPLE_FIELD)]),
            (TUPLE_FIELD, vec![n(ID_OR_TID)]),
            (TUPLE_FIELD, vec![t(Underscore), t(Colon), n(ID_OR_TID)]),
            (OPT_VARIANTS, vec![]),
            (OPT_VARIANTS, vec![n(OPT_VARIANTS), n(VARIANT)]),
            (VARIANT, vec![t(Ident), n(FIELDSET)]),
            (OPT_TVARIANTS, vec![]),
            (OPT_TVARIANTS, vec![n(OPT_TVARIANTS), n(TVARIANT)]),
            (TVARIANT, vec![t(TerminalIdent), t(Colon), n(TYPE)]),
            (TYPE, vec![t(LParen), t(RParen)]),
            (TYPE, vec![n(PATH)]),
            (TYPE, vec![n(COMPLEX)]),
            (PATH, vec![t(Ident)]),
            (PATH, vec![n(PATH), t(DoubleColon), t(Ident)]),
            (COMPLEX, vec![n(PATH), t(LAngle), n(TYPES), t(RAngle)]),
            (TYPES, vec![n(TYPE)]),
            (TYPES, vec![n(TYPES), t(Comma), n(TYPE)]),
            (ID_OR_US, vec![t(Ident)]),
            (ID_OR_US, vec![t(Underscore)]),
            (ID_OR_TID, vec![t(Ident)]),
            (ID_OR_TID, vec![t(TerminalIdent)]),
        ];
        let cfg = Cfg {
            n_t: ALL_KINDS.len(),
            n_n: 24,
            start: FILE,
            rules: rules.into_iter().map(|(lhs, rhs)| Rule { lhs, rhs }).collect(),
        };
        let sets = cfg.sets();
        assert!(sets.productive.iter().all(|b| *b), "every nonterminal of the Kiki grammar is productive");
        KikiGrammar { cfg, sets }
    })
}

#[derive(Clone, Debug, PartialEq, Eq)]
pub enum SynVerdict {
    Accept,
    /// index of the first token whose prefix is not viable
    BadToken(usize),
    /// the whole list is a viable proper prefix
    UnexpectedEof,
}

pub fn syntax_verdict(kinds: &[TokKind]) -> SynVerdict {
    let g = kiki_grammar();
    let input: Vec<u16> = kinds.iter().map(|k| k.index() as u16).collect();
    let r = cfg::earley(&g.cfg, &g.sets, &input);
    if r.accepted {
        SynVerdict::Accept
    } else if let Some(i) = r.dead_at {
        SynVerdict::BadToken(i)
    } else {
        SynVerdict::UnexpectedEof
    }
}

// ---------------------------------------------------------------------------
// Recursive-descent AST reader

struct P<'a> {
    toks: &'a [RTok],
    i: usize,
}

type R<T> = Result<T, ()>;

impl<'a> P<'a> {
    fn peek(&self) -> Option<TokKind> {
        self.toks.get(self.i).map(|t| t.kind)
    }
    fn eat(&mut self, k: TokKind) -> R<&'a RTok> {
        if self.peek() == Some(k) {
            self.i += 1;
            Ok(&self.toks[self.i - 1])
        } else {
            Err(())
        }
    }
    fn ident(&mut self) -> R<Id> {
        let t = self.eat(TokKind::Ident)?;
        Ok(Id::at(&t.text, t.start))
    }
    fn attrs(&mut self) -> Vec<RAttr> {
        let mut v = vec![];
        while self.peek() == Some(TokKind::OuterAttribute) {
            let t = &self.toks[self.i];
            v.push(RAttr { src: t.text.clone(), pos: t.start });
            self.i += 1;
        }
        v
    }
    fn sym(&mut self) -> R<RSym> {
        match self.peek() {
            Some(TokKind::Ident) => Ok(RSym::N(self.ident()?)),
            Some(TokKind::TerminalIdent) => {
                let t = self.eat(TokKind::TerminalIdent)?;
                Ok(RSym::T(Id::at(t.name(), t.name_pos())))
            }
            _ => Err(()),
        }
    }
    fn fieldset(&mut self) -> R<RFieldset> {
        match self.peek() {
            Some(TokKind::LCurly) => {
                self.i += 1;
                let mut fields = vec![];
                loop {
                    let name = match self.peek() {
                        Some(TokKind::Ident) => Some(self.ident()?),
                        Some(TokKind::Underscore) => {
                            self.i += 1;
                            None
                        }
                        _ => return Err(()),
                    };
                    self.eat(TokKind::Colon)?;
                    let s = self.sym()?;
                    fields.push((name, s));
                    if self.peek() == Some(TokKind::RCurly) {
                        self.i += 1;
                        break;
                    }
                }
                Ok(RFieldset::Named(fields))
            }
            Some(TokKind::LParen) => {
                self.i += 1;
                let mut fields = vec![];
                loop {
                    if self.peek() == Some(TokKind::Underscore) {
                        self.i += 1;
                        self.eat(TokKind::Colon)?;
                        fields.push((false, self.sym()?));
                    } else {
                        fields.push((true, self.sym()?));
                    }
                    if self.peek() == Some(TokKind::RParen) {
                        self.i += 1;
                        break;
                    }
                }
                Ok(RFieldset::Tuple(fields))
            }
            _ => Ok(RFieldset::Empty),
        }
    }
    fn path(&mut self) -> R<Vec<Id>> {
        let mut p = vec![self.ident()?];
        while self.peek() == Some(TokKind::DoubleColon) {
            self.i += 1;
            p.push(self.ident()?);
        }
        Ok(p)
    }
    fn ty(&mut self) -> R<RType> {
        if self.peek() == Some(TokKind::LParen) {
            self.i += 1;
            self.eat(TokKind::RParen)?;
            return Ok(RType::Unit);
        }
        let p = self.path()?;
        if self.peek() == Some(TokKind::LAngle) {
            self.i += 1;
            let mut args = vec![self.ty()?];
            while self.peek() == Some(TokKind::Comma) {
                self.i += 1;
                args.push(self.ty()?);
            }
            self.eat(TokKind::RAngle)?;
            Ok(RType::Generic(p, args))
        } else {
            Ok(RType::Path(p))
        }
    }
    fn file(&mut self) -> R<RFile> {
        let mut items = vec![];
        while self.i < self.toks.len() {
            if self.peek() == Some(TokKind::StartKw) {
                self.i += 1;
                items.push(RItem::Start(self.ident()?));
                continue;
            }
            let attrs = self.attrs();
            match self.peek() {
                Some(TokKind::StructKw) => {
                    self.i += 1;
                    let name = self.ident()?;
                    let fs = self.fieldset()?;
                    items.push(RItem::Struct { attrs, name, fs });
                }
                Some(TokKind::EnumKw) => {
                    self.i += 1;
                    let name = self.ident()?;
                    self.eat(TokKind::LCurly)?;
                    let mut variants = vec![];
                    while self.peek() == Some(TokKind::Ident) {
                        let vn = self.ident()?;
                        let fs = self.fieldset()?;
                        variants.push((vn, fs));
                    }
                    self.eat(TokKind::RCurly)?;
                    items.push(RItem::Enum { attrs, name, variants });
                }
                Some(TokKind::TerminalKw) => {
                    self.i += 1;
                    let name = self.ident()?;
                    self.eat(TokKind::LCurly)?;
                    let mut variants = vec![];
                    while self.peek() == Some(TokKind::TerminalIdent) {
                        let t = self.eat(TokKind::TerminalIdent)?;
                        let vn = Id::at(t.name(), t.name_pos());
                        self.eat(TokKind::Colon)?;
                        let ty = self.ty()?;
                        variants.push((vn, ty));
                    }
                    self.eat(TokKind::RCurly)?;
                    items.push(RItem::Terminal { attrs, name, variants });
                }
                _ => return Err(()),
            }
        }
        Ok(RFile { items })
    }
}

/// Reads a token list into the reference AST. `Err(())` when the list is not a
/// sentence of the Kiki grammar (use `syntax_verdict` for the error position).
pub fn read_file(toks: &[RTok]) -> Result<RFile, ()> {
    let mut p = P { toks, i: 0 };
    p.file()
}

#[cfg(test)]
mod tests {
    use super::*;
    use crate::reftok::tokenize;

    #[test]
    fn repo_examples_parse_and_roundtrip() {
        for f in ["json.kiki", "kiki.kiki", "balanced_parens_esoteric.kiki", "nonempty_unitlike_fieldset.kiki", "balanced_parens_with_outer_attributes.kiki"] {
            let src = std::fs::read_to_string(format!("/repo/kiki/src/examples/{f}")).unwrap();
            let toks = tokenize(&src).unwrap();
            let kinds: Vec<TokKind> = toks.iter().map(|t| t.kind).collect();
            assert_eq!(syntax_verdict(&kinds), SynVerdict::Accept, "{f}");
            let file = read_file(&toks).unwrap();
            let atoms = file.atoms();
            assert_eq!(atoms.len(), toks.len());
            for (a, t) in atoms.iter().zip(&toks) {
                assert_eq!(a.kind, t.kind);
                assert_eq!(a.text, t.text);
            }
        }
    }

    #[test]
    fn errors() {
        let k = |s: &str| -> SynVerdict {
            let toks = tokenize(s).unwrap();
            syntax_verdict(&toks.iter().map(|t| t.kind).collect::<Vec<_>>())
        };
        assert_eq!(k(""), SynVerdict::Accept);
        assert_eq!(k("start"), SynVerdict::UnexpectedEof);
        assert_eq!(k("start start"), SynVerdict::BadToken(1));
        assert_eq!(k("struct A { }"), SynVerdict::BadToken(3));
        assert_eq!(k("struct A ( )"), SynVerdict::BadToken(3));
        assert_eq!(k("#[a] start A"), SynVerdict::BadToken(1));
        assert_eq!(k("terminal T { $A: X<> }"), SynVerdict::BadToken(7));
        assert_eq!(k("enum E { A B(C) D{x:$y _:z} }"), SynVerdict::Accept);
    }
}
