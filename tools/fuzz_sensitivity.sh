#!/usr/bin/env bash
# usage: tools/fuzz_sensitivity.sh <seeded-dir-name|-> <target> <prop> [runs_total]
# Sensitivity of the E3 (libFuzzer) part ALONE: applies seeded/<dir>/patch.diff to /repo ("-" = unchanged tree),
# rebuilds harness + fuzz targets, runs one campaign without the proptest part, reverts. Prints one line.
cd "$(dirname "$0")/.."
ROOT=$PWD
d="$1"; target="$2"; prop="$3"; runs="${4:-400000}"
[ -z "$(git -C /repo status --porcelain)" ] || { echo "/repo dirty"; exit 2; }
if [ "$d" != "-" ]; then git -C /repo apply "$ROOT/seeded/$d/patch.diff" || exit 2; fi
export CARGO_NET_OFFLINE=true VERIF_ROOT="$ROOT"
(cd harness && cargo build --release --offline >"$ROOT/.work/build.log" 2>&1 && cargo +nightly fuzz build -O -s none >"$ROOT/.work/fuzz-build.log" 2>&1) || { echo "build failed"; git -C /repo checkout -- .; exit 2; }
harness/target/release/verif fuzz "$target" "$prop" "$runs"; code=$?
git -C /repo checkout -- . && git -C /repo clean -fdq -- kiki kiki_e2e_test
echo "seed=$d target=$target prop=$prop runs=$runs exit=$code"
