#!/usr/bin/env python3
"""Regenerates /verif/MANIFEST.json from the table below (keeps it schema-valid)."""
import json, os, subprocess, sys
ROOT = os.path.dirname(os.path.dirname(os.path.abspath(__file__)))

E1 = "E1 in-process proptest runner (harness/src/engine.rs)"
E2 = "E2 rustc-compiled emitted parsers (harness/src/e2.rs)"
TRUST_REF = "trusted base: the harness's own reference models (reference tokenizer, Kiki grammar + Earley, static validator, canonical LR(1)->LALR(1) construction), cross-checked against each other where two apply; bounded grammar/text sizes"

# id -> (technique, level text, level note, design_ref, engine)
CHECKS = {
 "C04": ("property-based testing (proptest): generated grammars vs reference LALR(1) construction (differential oracle)",
         "exploration: no counterexample among the generated grammars of every class (SLR, LALR-not-SLR, LR(1)-not-LALR, not LR(1); S/R, R/R, accept/R conflicts), with automatic shrinking; never a proof of absence",
         TRUST_REF, "DESIGN.md §4 C04", E1),
 "C11": ("property-based testing (proptest): TableConflict payload vs reference LALR(1) automaton (isomorphism + demanded-action oracle)",
         "exploration over generated conflicting grammars; every field of the error is checked against an independently built automaton",
         TRUST_REF, "DESIGN.md §4 C11", E1),
 "C17": ("property-based testing (proptest): tables read from the emitted text vs reference LALR(1) tables (cell-by-cell under a BFS state bijection)",
         "exploration over generated accepted grammars; compares every ACTION/GOTO cell, start state, column order and pop counts",
         TRUST_REF + "; the emitted text layout is read by a line-oriented reader (harness/src/emitted.rs)", "DESIGN.md §4 C17", E1),
 "C08": ("property-based testing (proptest): generated texts vs reference tokenizer written from the documented lexical rules (differential oracle, via the tokenize hook and via generate alone)",
         "exploration over 8 text families (valid files, token edits, token soup, lexically bad atoms, malformed attributes, character soup, character mutations of generated and repository files) under random layouts; full token vectors and Lex error payloads are compared",
         TRUST_REF + "; for malformed attributes every defensible 'first offending character' is accepted", "DESIGN.md §4 C08, Appendix A", E1),
 "C09": ("property-based testing (proptest): generated token lists vs Earley recogniser over the published Kiki grammar (acceptance + viable-prefix error index), plus exhaustive token-prefix truncation of the seed files",
         "exploration over valid files, 1..3 token edits, token soup and all prefixes of 25 seed files; generate's Parse(start,text,end) and kiki::data::cst::parse are both compared with the reference",
         TRUST_REF, "DESIGN.md §4 C09, Appendix B", E1),
 "C10": ("property-based testing (proptest): files with injected static violations vs reference validator (set of all violations present; completeness + truthfulness oracle)",
         "exploration over 15 kinds of violation injection (0..4 per file) and 3-name-pool files; any reported error must truthfully describe a violation present, and a file with violations must be rejected with a validation error",
         TRUST_REF + "; any of several simultaneous violations may be reported", "DESIGN.md §4 C10, Appendix C", E1),
 "C16": ("property-based testing (proptest): metamorphic relation between two random layouts of the same token list",
         "exploration over token lists of every outcome class (Ok, lex, parse, each validation error, table conflict) rendered under two independent layouts; outputs compared modulo the hash line, errors modulo the token-boundary position map",
         "trusted base: the layout renderer (self-checked on every case by re-tokenising both renderings with the reference tokenizer)", "DESIGN.md §4 C16", E1),
 "C12": ("property-based testing (proptest): generated attribute texts; byte-level oracle on the lines preceding each emitted type definition + unique-marker counting",
         "exploration over generated balanced-bracket attribute texts (nesting to depth 6, multi-byte, quotes, CR, U+2028) on struct/enum/terminal declarations, 0..4 per declaration",
         "trusted base: definition lines are located by the declared (unique) names; reference tokenizer/parser recover the written attributes from the source", "DESIGN.md §4 C12", E1),
 "C13": ("property-based testing (proptest): generated payload type expressions; every use site in the emitted text re-tokenised and compared with the declaration (plus an enumeration nested to depth 256)",
         "exploration over generated type expressions (paths of 1..5 segments, generics with 1..4 arguments, depth <= 6 random and <= 256 enumerated) at all four kinds of use site",
         "trusted base: line-oriented reader of the emitted type definitions and helper signatures (harness/src/emitted.rs)", "DESIGN.md §4 C13", E1),
 "C15": ("property-based testing (proptest): (a) round trip against an own SHA-256 implementation, (b) generated header texts vs a reference header scan",
         "exploration over accepted sources (digest must be that of the exact bytes; re-spaced variants must not share it) and over header texts composed from adversarial line fragments",
         "trusted base: own FIPS 180-4 SHA-256, self-tested on the standard vectors at start-up; '\\n' ends a line, CRLF tolerated", "DESIGN.md §4 C15", E1),
 "C18": ("model-based property testing (proptest): operation histories interpreted against std BTreeSet",
         "exploration over pairs of histories (0..40 ops) on three element types; invariants after every step and history-independence of ==, cmp, Hash",
         "trusted base: std BTreeSet as the model of a sorted set", "DESIGN.md §4 C18", E1),
 "C07": ("property-based testing / fuzzing (proptest): generated texts of 9 families under catch_unwind, plus size-stress and unusual-grammar inputs run in child processes (default stack, RLIMIT_AS) to observe aborts — against the release build of kiki and against a second, dev-profile build (unoptimised, debug assertions: the profile of build scripts)",
         "exploration: no panic / abort among generated texts reaching every pipeline stage, and among stress inputs at the stated size bounds; non-termination is not decidable by testing (watchdog => inconclusive)",
         "trusted base: catch_unwind + child-process exit status as the observation of panic/abort; reference front end only classifies cases", "DESIGN.md §4 C07, §9", "E1 + E4 child processes (harness/src/props/total.rs)"),
 "C14": ("property-based testing (proptest): metamorphic repetition — same text on the runner thread, on freshly spawned threads (fresh RandomState keys) and in fresh child processes",
         "exploration over texts of every outcome class, biased to large grammars; >= 8 hash-key sets per text in-process, 3 child processes on a sample; hash keys cannot be pinned, so this samples the seed space",
         "trusted base: std RandomState draws fresh keys per thread/process; Debug rendering of errors as the structural comparison", "DESIGN.md §4 C14, §9", "E1 + E4 child processes (harness/src/props/total.rs)"),
 "C01": ("property-based testing (proptest) with compiled artefacts: generated grammars -> emitted parser compiled by rustc and run on generated token strings; differential oracle = Earley membership cross-checked with a reference canonical-LR(1) driver; metamorphic payload change",
         "exploration over hundreds of compiled parsers x hundreds of token strings each (all strings up to a length bound, random derivations, mutants, prefixes); acceptance, panics, crashes (2 GiB limit) and doubly confirmed non-termination are judged",
         "trusted base: rustc 1.95, the generated client, the reference Earley/LR(1) on the CFG read off the declarations (mutually cross-checked per input)", "DESIGN.md §4 C01, Appendix E", E2),
 "C02": ("property-based testing (proptest) with compiled artefacts: the parse result is destructured exhaustively by a generated client and printed; oracle = the reference derivation tree (unique for LALR(1) grammars) rendered the same way",
         "exploration over compiled parsers with every fieldset pattern and position-carrying payloads; trees compared node by node incl. payload positions under two payload offsets",
         "trusted base: rustc, the generated printer client, the reference LR(1) driver's tree (checked to cover the input left to right)", "DESIGN.md §4 C02, Appendix E", E2),
 "C03": ("property-based testing (proptest) with compiled artefacts: non-sentences fed through a lazy counting iterator; oracle = viable-prefix index (Earley) / canonical LR(1) stop index, token identity by position payload, pull count",
         "exploration over compiled parsers x mostly-rejected strings; the returned token object, Err(None) vs Err(Some), and the exact number of items pulled are judged",
         "trusted base: rustc, the generated client, Earley and canonical LR(1) references (must agree when every nonterminal is productive)", "DESIGN.md §4 C03, Appendix E", E2),
 "C05": ("property-based testing (proptest) with rustc as oracle: accepted grammars under adversarial identifier assignments (helper names, template locals, letter-less names) and derive-less payload types; the emitted module must type-check with default lint levels",
         "exploration over ~1000 (quick) / 16000 (thorough) renamed grammars; two known findings are excluded by construction and probed separately (KNOWN-FINDING lines)",
         "trusted base: rustc 1.95 as the judge of 'compiles'; the precondition list (keywords, 2021 prelude names) in harness/src/props/hygiene.rs", "DESIGN.md §4 C05", E2),
 "C06": ("property-based testing (proptest) with rustc as oracle: a generated client constructs and destructures every emitted type in the declared shape with ascribed types and takes parse at the documented signature; plus a text-order comparison of the emitted definitions",
         "exploration over renamed grammars with all fieldset patterns and payload types nested to depth 4; rustc decides shape/type/visibility/signature, the text reader decides declaration order and unit-like collapse",
         "trusted base: rustc 1.95; line-oriented reader of the emitted type region", "DESIGN.md §4 C06", E2),
}

NOT_YET = {}

def main():
    props = [json.loads(l) for l in open(os.path.join(ROOT, "properties.jsonl"))]
    checks = []
    na = []
    for p in props:
        pid = p["id"]
        if pid in CHECKS:
            tech, text, note, ref, eng = CHECKS[pid]
            checks.append({
                "property_id": pid,
                "quick_cmd": f"./check.sh {pid} quick",
                "thorough_cmd": f"./check.sh {pid} thorough",
                "evidence_file": f"evidence/{pid}.json",
                "replay_cmd_template": f"./check.sh replay {pid} {{path}}",
                "engine": eng,
                "level_claimed": {"category": "exploration", "text": text, "design_ref": ref},
                "level_note": note,
                "technique": tech,
            })
        else:
            na.append({"property_id": pid, "reason": NOT_YET.get(pid, "check not built yet (work in progress); property-based testing applies, see DESIGN.md §4")})
    hooks_commits = subprocess.run(["git", "-C", "/repo", "log", "--format=%H", "--grep=^verif hook"], capture_output=True, text=True).stdout.split()
    m = {
        "version": 1,
        "setup_cmd": "./check.sh setup",
        "hooks": {
            "guard": "cargo feature `verif-hooks` of crate kiki (off by default)",
            "enable": "harness/Cargo.toml depends on kiki = { path = \"/repo/kiki\", features = [\"verif-hooks\"] }; every check command runs `cargo build --release --offline` first, which recompiles /repo's working tree",
            "baseline_off_cmd": "cd /repo && cargo test --workspace --no-fail-fast --offline",
            "source_commits": hooks_commits,
            "add_only": True,
        },
        "engines": [
            {"name": "E1", "path": "harness/src/engine.rs", "serves_properties": sorted(CHECKS), "kind_free_text": "sharded proptest TestRunner (16 shards, fixed seeds from VERIF_SEED), catch_unwind around kiki, automatic shrinking, replay files"},
            {"name": "E2", "path": "harness/src/e2.rs", "serves_properties": [p for p in ("C01", "C02", "C03", "C05", "C06") if p in CHECKS], "kind_free_text": "emitted text written verbatim, compiled with plain rustc (no cargo, no network) together with a generated client, run under RLIMIT_AS and a watchdog; scratch under /verif/.work removed per case"},
            {"name": "E3", "path": "harness/fuzz + harness/src/fuzzrun.rs + harness/src/fuzzapi.rs", "serves_properties": [p for p in ("C04", "C07", "C08", "C09", "C10", "C11", "C12", "C13", "C14", "C15", "C16", "C17", "C18") if p in CHECKS], "kind_free_text": "coverage-guided libFuzzer campaigns (cargo-fuzz targets text_frontend, raw_struct (bytes decoded into the raw value of the text generators), grammar_struct, oset_ops, hash_header; oracle inside the target; fixed work -runs/-seed; 8 processes); thorough tiers only"},
            {"name": "E4", "path": "harness/src/props/total.rs", "serves_properties": [p for p in ("C07", "C14") if p in CHECKS], "kind_free_text": "the verif binary re-executes itself (`verif worker`) to observe aborts / stack overflows and fresh-process hash seeds; for C07 also a dev-profile build of the same binary (harness/target/debug/verif, built by check.sh)"},
        ],
        "checks": checks,
        "not_applicable": na,
        "notes": "All checks are generated-input search (property-based testing / fuzzing) against explicit oracles; see DESIGN.md. Exit 0 = held on everything explored, 1 = VIOLATION line, 2 = inconclusive.",
    }
    json.dump(m, open(os.path.join(ROOT, "MANIFEST.json"), "w"), indent=1)
    print("wrote MANIFEST.json with", len(checks), "checks,", len(na), "not yet claimed")

main()
