#!/usr/bin/env bash
# usage: tools/seeded.sh <seeded-dir-name> <check ids...>
# Applies /verif/seeded/<dir>/patch.diff to /repo, runs the given checks (quick), reverts, prints one line per check.
cd "$(dirname "$0")/.."
d="seeded/$1"; shift
[ -f "$d/patch.diff" ] || { echo "no $d/patch.diff"; exit 2; }
[ -z "$(git -C /repo status --porcelain)" ] || { echo "/repo dirty"; exit 2; }
# evidence/ must only ever hold results from the unchanged tree: keep it aside while /repo is patched
rm -rf .work/evidence.keep && cp -r evidence .work/evidence.keep
git -C /repo apply "$PWD/$d/patch.diff" || exit 2
res=""
for id in "$@"; do
    s=$(date +%s)
    out=$(timeout 900 ./check.sh "$id" "${TIER:-quick}" 2>"$d/.stderr-$id")
    code=$?
    e=$(date +%s)
    first=$(grep -A2 -m1 -- '--- violation' "$d/.stderr-$id" | tr '\n' ' ' | cut -c1-300)
    echo "$id exit=$code wall=$((e-s))s $first"
    res="$res\"$id\": {\"exit\": $code, \"wall_s\": $((e-s))}, "
    rm -f "$d/.stderr-$id"
done
git -C /repo checkout -- . && git -C /repo clean -fdq -- kiki kiki_e2e_test
rm -rf evidence && mv .work/evidence.keep evidence
python3 - "$d/checks_quick.json" "{${res%, }}" <<'PY'
import json, sys, os
path, new = sys.argv[1], json.loads(sys.argv[2])
old = json.load(open(path)) if os.path.exists(path) else {}
old.update(new)
json.dump(old, open(path, "w"), indent=1, sort_keys=True)
PY
