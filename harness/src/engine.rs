//! E1 — sharded in-process property runner on top of proptest's `TestRunner`,
//! plus evidence / replay / known-findings plumbing shared by all checks.

use proptest::strategy::Strategy;
use proptest::test_runner::{Config, RngSeed, TestCaseError, TestError, TestRunner};
use serde_json::{json, Value};
use std::collections::{BTreeMap, BTreeSet};
use std::hash::{Hash, Hasher};
use std::path::PathBuf;
use std::sync::atomic::{AtomicBool, Ordering};
use std::sync::Mutex;
use std::time::Instant;

#[derive(Clone, Copy, Debug, PartialEq, Eq)]
pub enum Tier {
    Quick,
    Thorough,
}

impl Tier {
    pub fn name(self) -> &'static str {
        match self {
            Tier::Quick => "quick",
            Tier::Thorough => "thorough",
        }
    }
    pub fn pick<T>(self, quick: T, thorough: T) -> T {
        match self {
            Tier::Quick => quick,
            Tier::Thorough => thorough,
        }
    }
}

#[derive(Clone, Debug)]
pub struct Ctx {
    pub prop: String,
    pub tier: Tier,
    pub seed: u64,
    pub root: PathBuf,
    pub threads: usize,
    /// multiplies every case budget (VERIF_SCALE, default 1.0) — for development only
    pub scale: f64,
    /// bound on proptest shrink iterations (small for checks whose test function compiles code)
    pub shrink_iters: u32,
}

impl Ctx {
    pub fn budget(&self, quick: u64, thorough: u64) -> u64 {
        let b = self.tier.pick(quick, thorough) as f64 * self.scale;
        (b as u64).max(1)
    }
}

pub const MAX_SAMPLES: usize = 8;

#[derive(Clone, Debug, Default)]
pub struct Stats {
    pub evaluations: u64,
    pub nontrivial: BTreeSet<u64>,
    pub classes: BTreeMap<String, u64>,
    pub discarded: BTreeMap<String, u64>,
    pub samples: Vec<Value>,
    pub extra: BTreeMap<String, u64>,
}

pub fn hash_of<T: Hash>(t: &T) -> u64 {
    // FNV-1a over the std Hash stream with a fixed-key hasher: deterministic across runs
    struct Fnv(u64);
    impl Hasher for Fnv {
        fn finish(&self) -> u64 {
            self.0
        }
        fn write(&mut self, bytes: &[u8]) {
            for b in bytes {
                self.0 ^= *b as u64;
                self.0 = self.0.wrapping_mul(0x100000001b3);
            }
        }
    }
    let mut h = Fnv(0xcbf29ce484222325);
    t.hash(&mut h);
    h.finish()
}

impl Stats {
    pub fn class(&mut self, name: &str) {
        *self.classes.entry(name.to_string()).or_insert(0) += 1;
    }
    pub fn class_n(&mut self, name: &str, n: u64) {
        *self.classes.entry(name.to_string()).or_insert(0) += n;
    }
    pub fn discard(&mut self, why: &str) {
        *self.discarded.entry(why.to_string()).or_insert(0) += 1;
    }
    pub fn nontrivial<T: Hash>(&mut self, key: &T) {
        self.nontrivial.insert(hash_of(key));
    }
    pub fn want_sample(&self) -> bool {
        self.samples.len() < MAX_SAMPLES
    }
    pub fn sample(&mut self, v: Value) {
        if self.samples.len() < MAX_SAMPLES {
            self.samples.push(v);
        }
    }
    pub fn merge(&mut self, o: Stats) {
        self.evaluations += o.evaluations;
        self.nontrivial.extend(o.nontrivial);
        for (k, v) in o.classes {
            *self.classes.entry(k).or_insert(0) += v;
        }
        for (k, v) in o.discarded {
            *self.discarded.entry(k).or_insert(0) += v;
        }
        for (k, v) in o.extra {
            let e = self.extra.entry(k.clone()).or_insert(0);
            if k.starts_with("slowest-") {
                *e = (*e).max(v);
            } else {
                *e += v;
            }
        }
        for s in o.samples {
            if self.samples.len() < MAX_SAMPLES * 2 {
                self.samples.push(s);
            }
        }
    }
}

/// A property violation (or an internal problem) found on one concrete case.
#[derive(Clone, Debug)]
pub struct Failure {
    /// short machine-readable kind, e.g. "accepts-nonsentence"
    pub kind: String,
    /// human-readable explanation (expected vs observed)
    pub detail: String,
    /// the concrete case, sufficient for `replay`
    pub case: Value,
    /// true = not a property violation but a harness/oracle inconsistency (exit 2)
    pub internal: bool,
}

impl Failure {
    pub fn new(kind: &str, detail: String, case: Value) -> Failure {
        Failure { kind: kind.to_string(), detail, case, internal: false }
    }
    pub fn internal(kind: &str, detail: String, case: Value) -> Failure {
        Failure { kind: kind.to_string(), detail, case, internal: true }
    }
    /// signature used to match known findings
    pub fn signature(&self) -> String {
        format!("{}: {}", self.kind, self.detail.lines().next().unwrap_or(""))
    }
}

pub struct RunOutcome {
    pub stats: Stats,
    pub failures: Vec<Failure>,
}

/// Silences the default panic message while kiki is called under catch_unwind.
pub fn install_quiet_panic_hook() {
    std::panic::set_hook(Box::new(|info| {
        let loc = info.location().map(|l| format!("{}:{}", l.file(), l.line())).unwrap_or_default();
        if !IN_CATCH.with(|c| c.get()) {
            eprintln!("harness panic: {info}");
        }
        LAST_PANIC_LOCATION.with(|c| *c.borrow_mut() = loc);
    }));
}

thread_local! {
    static IN_CATCH: std::cell::Cell<bool> = std::cell::Cell::new(false);
    static LAST_PANIC_LOCATION: std::cell::RefCell<String> = std::cell::RefCell::new(String::new());
}

// ---------------------------------------------------------------------------
// Watchdog: a case that does not finish (a hang inside kiki, or inside the harness) must not hang the check.

/// What the calling thread is currently feeding to kiki (set by `outcome::generate`), keyed by shard slot.
static CURRENT_INPUT: Mutex<Vec<Option<String>>> = Mutex::new(Vec::new());

thread_local! {
    static SHARD_SLOT: std::cell::Cell<usize> = std::cell::Cell::new(usize::MAX);
}

/// Every call into kiki that is currently in progress, in any thread and any phase (regress replays, probes,
/// enumerations, sharded search): (thread token, start, input).
static ACTIVE_CALLS: Mutex<Vec<(u64, Instant, String)>> = Mutex::new(Vec::new());
static NEXT_TOKEN: std::sync::atomic::AtomicU64 = std::sync::atomic::AtomicU64::new(1);

thread_local! {
    static THREAD_TOKEN: u64 = NEXT_TOKEN.fetch_add(1, Ordering::Relaxed);
}

/// Process-wide watchdog over calls into kiki: a call that has not returned after `case_timeout_secs()` ends the
/// run (exit 2; for C07 a small input is first confirmed in a child process and then reported as a violation).
pub fn start_global_watchdog(prop: &str, root: &std::path::Path) {
    let prop_name = prop.to_string();
    let root = root.to_path_buf();
    std::thread::spawn(move || loop {
        std::thread::sleep(std::time::Duration::from_millis(500));
        let limit = case_timeout_secs();
        let stuck: Option<String> = ACTIVE_CALLS.lock().ok().and_then(|v| v.iter().find(|(_, t, _)| t.elapsed().as_secs() > limit).map(|(_, _, s)| s.clone()));
        if let Some(t) = stuck {
            let dir = root.join("replays").join(&prop_name);
            let _ = std::fs::create_dir_all(&dir);
            let p = dir.join(format!("watchdog-{:016x}.json", hash_of(&t)));
            let _ = std::fs::write(&p, serde_json::to_string_pretty(&json!({"property": prop_name, "kind": "watchdog", "case": {"source": t}})).unwrap());
            if prop_name == "C07" && t.len() <= 4096 && crate::props::total::confirm_hang(&root, &t) {
                eprintln!("--- violation does-not-terminate ---\ngenerate did not return on a {}-byte input, neither within {limit} s in-process nor within the confirmation limit in a fresh child process\n", t.len());
                println!("VIOLATION property={prop_name} replay={}", p.display());
                std::process::exit(1);
            }
            println!(
                "INCONCLUSIVE property={prop_name} watchdog: a call of kiki::generate did not return within {limit} s (non-termination cannot be decided by testing); input kept at {}",
                p.display()
            );
            std::process::exit(2);
        }
    });
}

pub fn note_current_input(text: Option<&str>) {
    let token = THREAD_TOKEN.with(|t| *t);
    if let Ok(mut v) = ACTIVE_CALLS.lock() {
        v.retain(|(k, _, _)| *k != token);
        if let Some(t) = text {
            v.push((token, Instant::now(), t.to_string()));
        }
    }
    let slot = SHARD_SLOT.with(|c| c.get());
    if slot == usize::MAX {
        return;
    }
    if let Ok(mut v) = CURRENT_INPUT.lock() {
        if slot < v.len() {
            v[slot] = text.map(|t| t.to_string());
        }
    }
}

/// Seconds a single case may take before the run is declared inconclusive (exit 2).
pub fn case_timeout_secs() -> u64 {
    std::env::var("VERIF_CASE_TIMEOUT").ok().and_then(|s| s.parse().ok()).unwrap_or(180)
}

/// Runs `test` on `cases` generated values, split over `ctx.threads` shards.
/// `test(value, stats)` must be deterministic. Stats are only recorded until a
/// shard's first failure (the closure is re-run during shrinking).
/// Child processes (C07/C14 workers, compiled clients, libFuzzer jobs) must not outlive a check that is killed from
/// outside (e.g. by `timeout`): with a hang in the code under test an orphan would spin forever.
pub fn die_with_parent(cmd: &mut std::process::Command) {
    use std::os::unix::process::CommandExt;
    unsafe {
        cmd.pre_exec(|| {
            libc::prctl(libc::PR_SET_PDEATHSIG, libc::SIGKILL);
            Ok(())
        });
    }
}

pub fn run_sharded<S, F, MK>(ctx: &Ctx, label: &str, cases: u64, mk_strategy: MK, test: F) -> RunOutcome
where
    S: Strategy,
    S::Value: Clone + std::fmt::Debug,
    MK: Fn() -> S + Sync,
    F: Fn(&S::Value, &mut Stats) -> Result<(), Failure> + Sync,
{
    let shards = ctx.threads.max(1) as u64;
    let per = (cases + shards - 1) / shards;
    let all_stats = Mutex::new(Stats::default());
    let failures: Mutex<Vec<Failure>> = Mutex::new(vec![]);
    let stop = AtomicBool::new(false);
    let label_hash = hash_of(&label);
    // heartbeat per shard + monitor thread
    let beats: Vec<std::sync::atomic::AtomicU64> = (0..shards).map(|_| std::sync::atomic::AtomicU64::new(0)).collect();
    let finished = AtomicBool::new(false);
    if let Ok(mut v) = CURRENT_INPUT.lock() {
        v.clear();
        v.resize(shards as usize, None);
    }
    let prop_name = ctx.prop.clone();
    let root = ctx.root.clone();
    std::thread::scope(|sc| {
        {
            let beats = &beats;
            let finished = &finished;
            let prop_name = prop_name.clone();
            let root = root.clone();
            sc.spawn(move || {
                let limit = case_timeout_secs();
                let mut last: Vec<(u64, std::time::Instant)> = beats.iter().map(|b| (b.load(Ordering::Relaxed), std::time::Instant::now())).collect();
                loop {
                    for _ in 0..10 {
                        if finished.load(Ordering::Relaxed) {
                            return;
                        }
                        std::thread::sleep(std::time::Duration::from_millis(100));
                    }
                    for (i, b) in beats.iter().enumerate() {
                        let v = b.load(Ordering::Relaxed);
                        if v == u64::MAX {
                            continue; // shard done
                        }
                        if v != last[i].0 {
                            last[i] = (v, std::time::Instant::now());
                        } else if last[i].1.elapsed().as_secs() > limit {
                            // several shards are usually stuck by now (each on its own input): take the smallest input
                            // among those that have been silent for more than half the limit
                            let input = CURRENT_INPUT.lock().ok().and_then(|v| {
                                let mut stuck: Vec<String> = beats
                                    .iter()
                                    .enumerate()
                                    .filter(|(k, b)| {
                                        let cur = b.load(Ordering::Relaxed);
                                        cur != u64::MAX && cur == last[*k].0 && last[*k].1.elapsed().as_secs() * 2 > limit
                                    })
                                    .filter_map(|(k, _)| v.get(k).cloned().flatten())
                                    .collect();
                                stuck.sort_by_key(|t| t.len());
                                stuck.into_iter().next().or_else(|| v.get(i).cloned().flatten())
                            });
                            let mut kept = String::new();
                            if let Some(t) = &input {
                                let dir = root.join("replays").join(&prop_name);
                                let _ = std::fs::create_dir_all(&dir);
                                let p = dir.join(format!("watchdog-{:016x}.json", hash_of(t)));
                                let _ = std::fs::write(&p, serde_json::to_string_pretty(&json!({"property": prop_name, "kind": "watchdog", "case": {"source": t}})).unwrap());
                                kept = format!(" input kept at {}", p.display());
                            }
                            // C07 ("never loops"): a small input is re-run alone in a child process with a much longer
                            // limit; only a doubly confirmed non-return on an input whose normal cost is micro- to
                            // milliseconds is reported as a violation
                            if prop_name == "C07" {
                                if let Some(t) = &input {
                                    if t.len() <= 4096 && crate::props::total::confirm_hang(&root, t) {
                                        let dir = root.join("replays").join(&prop_name);
                                        let p = dir.join(format!("watchdog-{:016x}.json", hash_of(t)));
                                        eprintln!("--- violation does-not-terminate ---\ngenerate did not return on a {}-byte input, neither within {limit} s in-process nor within the confirmation limit in a fresh child process\n", t.len());
                                        println!("VIOLATION property={prop_name} replay={}", p.display());
                                        std::process::exit(1);
                                    }
                                }
                            }
                            println!(
                                "INCONCLUSIVE property={prop_name} watchdog: one case did not finish within {limit} s (a hang in kiki or in the harness; non-termination cannot be decided by testing).{kept}"
                            );
                            std::process::exit(2);
                        }
                    }
                }
            });
        }
        let mut handles = vec![];
        for shard in 0..shards {
            let all_stats = &all_stats;
            let failures = &failures;
            let test = &test;
            let mk_strategy = &mk_strategy;
            let stop = &stop;
            let seed = ctx.seed;
            let shrink_iters = ctx.shrink_iters;
            let beat = &beats[shard as usize];
            let h = std::thread::Builder::new()
                .stack_size(64 << 20)
                .spawn_scoped(sc, move || {
                    SHARD_SLOT.with(|c| c.set(shard as usize));
                    let mut cfg = Config::default();
                    cfg.cases = per as u32;
                    cfg.failure_persistence = None;
                    cfg.rng_seed = RngSeed::Fixed(
                        seed.wrapping_mul(0x9E3779B97F4A7C15) ^ (shard + 1).wrapping_mul(0xD1B54A32D192ED03) ^ label_hash,
                    );
                    cfg.max_shrink_iters = shrink_iters;
                    cfg.verbose = 0;
                    cfg.source_file = None;
                    let mut runner = TestRunner::new(cfg);
                    let strategy = mk_strategy();
                    let stats = std::cell::RefCell::new(Stats::default());
                    let failed = std::cell::Cell::new(false);
                    let res = runner.run(&strategy, |v| {
                        beat.fetch_add(1, Ordering::Relaxed);
                        if stop.load(Ordering::Relaxed) && !failed.get() {
                            // another shard already failed: finish quickly
                            return Ok(());
                        }
                        if failed.get() {
                            let mut scratch = Stats::default();
                            return match test(&v, &mut scratch) {
                                Ok(()) => Ok(()),
                                Err(f) => Err(TestCaseError::fail(f.signature())),
                            };
                        }
                        let mut st = stats.borrow_mut();
                        st.evaluations += 1;
                        let t_case = std::time::Instant::now();
                        let r_case = test(&v, &mut st);
                        let ms = t_case.elapsed().as_millis() as u64;
                        if ms >= 1000 {
                            *st.extra.entry("cases-slower-than-1s".into()).or_insert(0) += 1;
                            if std::env::var("VERIF_DEBUG").is_ok() {
                                let d = format!("{v:?}");
                                eprintln!("DEBUG slow case {ms} ms: {}", &d[..d.len().min(600)]);
                            }
                        }
                        let e = st.extra.entry("slowest-case-ms".into()).or_insert(0);
                        *e = (*e).max(ms);
                        match r_case {
                            Ok(()) => Ok(()),
                            Err(f) => {
                                failed.set(true);
                                stop.store(true, Ordering::Relaxed);
                                Err(TestCaseError::fail(f.signature()))
                            }
                        }
                    });
                    if let Err(e) = res {
                        match e {
                            TestError::Fail(_, minimal) => {
                                let mut scratch = Stats::default();
                                match test(&minimal, &mut scratch) {
                                    Err(f) => failures.lock().unwrap().push(f),
                                    Ok(()) => failures.lock().unwrap().push(Failure::internal(
                                        "flaky",
                                        format!("minimal value passed on re-run: {minimal:?}"),
                                        Value::Null,
                                    )),
                                }
                            }
                            TestError::Abort(r) => failures.lock().unwrap().push(Failure::internal(
                                "aborted",
                                format!("proptest aborted: {r}"),
                                Value::Null,
                            )),
                        }
                    }
                    all_stats.lock().unwrap().merge(stats.into_inner());
                    beat.store(u64::MAX, Ordering::Relaxed);
                })
                .unwrap();
            handles.push(h);
        }
        for h in handles {
            let _ = h.join();
        }
        finished.store(true, Ordering::Relaxed);
    });
    RunOutcome { stats: all_stats.into_inner().unwrap(), failures: failures.into_inner().unwrap() }
}

// ---------------------------------------------------------------------------
// Known findings

#[derive(Clone, Debug)]
pub struct Finding {
    pub property: String,
    pub id: String,
    pub status: String, // "open" | "fixed"
    pub commit: Option<String>,
    pub signature: String, // substring that must occur in Failure::signature()
    pub what: String,
    pub probe: Value, // minimal input, property specific
}

pub fn load_findings(root: &std::path::Path) -> Vec<Finding> {
    let p = root.join("known_findings.json");
    let Ok(txt) = std::fs::read_to_string(&p) else { return vec![] };
    let v: Value = serde_json::from_str(&txt).expect("known_findings.json must be valid JSON");
    v.as_array()
        .expect("known_findings.json must be an array")
        .iter()
        .map(|e| Finding {
            property: e["property"].as_str().unwrap_or("").to_string(),
            id: e["id"].as_str().unwrap_or("").to_string(),
            status: e["status"].as_str().unwrap_or("open").to_string(),
            commit: e["commit"].as_str().map(|s| s.to_string()),
            signature: e["signature"].as_str().unwrap_or("").to_string(),
            what: e["what"].as_str().unwrap_or("").to_string(),
            probe: e["probe"].clone(),
        })
        .collect()
}

// ---------------------------------------------------------------------------
// Reporting

pub struct Report {
    pub ctx: Ctx,
    pub started: Instant,
    pub stats: Stats,
    pub rule: String,
    pub assumptions: Vec<String>,
    pub violations: Vec<Failure>,
    pub known_lines: Vec<String>,
    pub internal: Vec<Failure>,
    pub engines: BTreeMap<String, Value>,
    pub regress_replayed: u64,
    pub excluded_known: BTreeMap<String, u64>,
    pub notes: Vec<String>,
}

impl Report {
    pub fn new(ctx: &Ctx, rule: &str) -> Report {
        Report {
            ctx: ctx.clone(),
            started: Instant::now(),
            stats: Stats::default(),
            rule: rule.to_string(),
            assumptions: vec![],
            violations: vec![],
            known_lines: vec![],
            internal: vec![],
            engines: BTreeMap::new(),
            regress_replayed: 0,
            excluded_known: BTreeMap::new(),
            notes: vec![],
        }
    }

    pub fn absorb(&mut self, engine: &str, out: RunOutcome) {
        self.engines.insert(
            engine.to_string(),
            json!({"evaluations": out.stats.evaluations, "distinct_nontrivial": out.stats.nontrivial.len()}),
        );
        self.stats.merge(out.stats);
        for f in out.failures {
            if f.internal {
                self.internal.push(f);
            } else {
                self.violations.push(f);
            }
        }
    }

    /// Writes evidence, replays; prints verdict lines; returns the exit code.
    pub fn finish(mut self) -> i32 {
        let wall = self.started.elapsed().as_secs_f64();
        let root = self.ctx.root.clone();
        let prop = self.ctx.prop.clone();
        // de-duplicate violations by signature
        let mut seen = BTreeSet::new();
        self.violations.retain(|f| seen.insert(f.signature()));
        let mut replay_paths = vec![];
        for f in &self.violations {
            let dir = root.join("replays").join(&prop);
            let _ = std::fs::create_dir_all(&dir);
            let body = json!({
                "property": prop,
                "tier": self.ctx.tier.name(),
                "seed": self.ctx.seed,
                "kind": f.kind,
                "detail": f.detail,
                "case": f.case,
            });
            let text = serde_json::to_string_pretty(&body).unwrap();
            let name = format!("{:016x}.json", hash_of(&text));
            let path = dir.join(name);
            let _ = std::fs::write(&path, text);
            replay_paths.push(path);
        }
        let mut samples = self.stats.samples.clone();
        samples.truncate(MAX_SAMPLES);
        let evidence = json!({
            "property_id": prop,
            "tier": self.ctx.tier.name(),
            "seed": self.ctx.seed,
            "level": "exploration",
            "coverage": {
                "evaluations": self.stats.evaluations,
                "distinct_nontrivial": self.stats.nontrivial.len(),
                "rule": self.rule,
                "samples": samples,
                "classes": self.stats.classes,
                "discarded": self.stats.discarded,
                "extra": self.stats.extra,
                "engines": self.engines,
                "regress_replayed": self.regress_replayed,
                "excluded_known": self.excluded_known,
                "known_findings_reported": self.known_lines,
                "notes": self.notes,
                "exhaustive": false,
            },
            "assumptions": self.assumptions,
            "wall_s": (wall * 1000.0).round() / 1000.0,
            "violations": self.violations.len(),
        });
        let edir = root.join("evidence");
        let _ = std::fs::create_dir_all(&edir);
        std::fs::write(edir.join(format!("{prop}.json")), serde_json::to_string_pretty(&evidence).unwrap())
            .expect("cannot write evidence");

        for l in &self.known_lines {
            println!("KNOWN-FINDING: property={prop} {l}");
        }
        for (f, p) in self.violations.iter().zip(&replay_paths) {
            eprintln!("--- violation {} ---\n{}\n", f.kind, f.detail);
            println!("VIOLATION property={prop} replay={}", p.display());
        }
        for f in &self.internal {
            eprintln!("--- internal problem {} ---\n{}\n", f.kind, f.detail);
            println!("INCONCLUSIVE property={prop} {}", f.signature());
        }
        println!(
            "SUMMARY property={prop} tier={} seed={} evaluations={} distinct_nontrivial={} violations={} known={} wall_s={:.1}",
            self.ctx.tier.name(),
            self.ctx.seed,
            self.stats.evaluations,
            self.stats.nontrivial.len(),
            self.violations.len(),
            self.known_lines.len(),
            wall
        );
        if !self.violations.is_empty() {
            1
        } else if !self.internal.is_empty() {
            2
        } else if self.stats.evaluations == 0 || self.stats.nontrivial.len() < 2 {
            println!("INCONCLUSIVE property={prop} too few non-trivial cases");
            2
        } else {
            0
        }
    }
}

/// Calls `f` under catch_unwind; returns Err(message) on panic.
pub fn catch<T>(f: impl FnOnce() -> T) -> Result<T, String> {
    let prev = IN_CATCH.with(|c| c.replace(true));
    let r = std::panic::catch_unwind(std::panic::AssertUnwindSafe(f));
    IN_CATCH.with(|c| c.set(prev));
    match r {
        Ok(v) => Ok(v),
        Err(e) => {
            let msg = if let Some(s) = e.downcast_ref::<&str>() {
                s.to_string()
            } else if let Some(s) = e.downcast_ref::<String>() {
                s.clone()
            } else {
                "<non-string panic>".to_string()
            };
            let loc = LAST_PANIC_LOCATION.with(|c| c.borrow().clone());
            Err(if loc.is_empty() { msg } else { format!("{msg} @ {loc}") })
        }
    }
}
