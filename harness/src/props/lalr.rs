//! C04 (parser emitted exactly for LALR(1) grammars), C11 (conflict error
//! pinpoints a real conflict in the real automaton), C17 (emitted tables are
//! the canonical LALR(1) tables). All three compare kiki with the reference
//! LALR(1) automaton = canonical LR(1) collection merged by core.

use super::common::*;
use crate::cfg::{self, Act, Analysis, Cfg, S};
use crate::emitted::{self, ECell};
use crate::engine::*;
use crate::gen::{self, RawGrammar};
use crate::outcome::{self, Outcome};
use serde_json::json;
use std::collections::BTreeSet;

// ---------------------------------------------------------------------------
// C04

pub fn c04_judge(g: &GCase, a: &Analysis, out: &Outcome) -> Result<(), Failure> {
    let expected_ok = a.lalr_ok();
    let case = text_case(&g.text);
    match out {
        Outcome::Ok(_) if expected_ok => Ok(()),
        Outcome::TableConflict(_) if !expected_ok => Ok(()),
        Outcome::Ok(_) => {
            let c = a.lalr_tables.conflicts();
            Err(Failure::new(
                "accepts-non-lalr",
                format!(
                    "generate returned Ok for a grammar whose LALR(1) automaton has {} conflicting cell(s); first: state {} lookahead {} actions {:?} (class {:?})",
                    c.len(),
                    c[0].0,
                    c[0].1,
                    c[0].2,
                    a.class()
                ),
                case,
            ))
        }
        Outcome::TableConflict(e) => Err(Failure::new(
            "rejects-lalr",
            format!(
                "generate returned TableConflict (state {}, items {:?}) for a grammar whose LALR(1) automaton is conflict-free (class {:?})",
                e.state_index.0,
                e.items,
                a.class()
            ),
            case,
        )),
        other => Err(Failure::new(
            "wellformed-file-not-ok-nor-conflict",
            format!("a statically well-formed file gave {} (expected {})", other.brief(), if expected_ok { "Ok" } else { "TableConflict" }),
            case,
        )),
    }
}

fn c04_test(raw: &RawGrammar, st: &mut Stats) -> Result<(), Failure> {
    let t0 = std::time::Instant::now();
    let g = grammar_case(raw);
    let t1 = t0.elapsed();
    let Ok(a) = Analysis::new(&g.cfg) else {
        st.discard("reference LR(1) collection exceeds cap");
        return Ok(());
    };
    if t0.elapsed().as_millis() > 500 && std::env::var("VERIF_DEBUG").is_ok() {
        eprintln!("DEBUG c04 build {:?} analysis {:?} lr1 {} lalr {} rules {} text {}", t1, t0.elapsed() - t1, a.lr1.states.len(), a.lalr.states.len(), g.cfg.rules.len(), g.text.len());
    }
    let sh = classify(st, &g, &a);
    // self-check of the reference: SLR(1) conflict-free => LALR(1) conflict-free => LR(1) conflict-free
    if (a.slr_conflict_free && !a.lalr_ok()) || (a.lalr_ok() && !a.lr1_tables.conflict_free()) {
        return Err(Failure::internal(
            "oracle-inconsistency",
            format!("reference classes violate SLR ⊆ LALR ⊆ LR(1): slr={} lalr={} lr1={}", a.slr_conflict_free, a.lalr_ok(), a.lr1_tables.conflict_free()),
            text_case(&g.text),
        ));
    }
    let out = outcome::generate(&g.text);
    if sh.recursive && a.lalr.states.len() >= 6 {
        st.nontrivial(&cfg::canon(&g.cfg));
    }
    if st.want_sample() && sh.recursive && a.lalr.states.len() >= 6 {
        st.sample(json!({"grammar": g.text, "class": format!("{:?}", a.class()), "lalr_states": a.lalr.states.len(), "kiki": out.brief()}));
    }
    c04_judge(&g, &a, &out)
}

pub fn c04_replay(case: &serde_json::Value) -> Result<(), Failure> {
    let text = case_text(case)?;
    let g = gcase_from_text(&text).map_err(|e| Failure::internal("bad-replay", e, case.clone()))?;
    let a = Analysis::new(&g.cfg).map_err(|_| Failure::internal("too-big", "reference gave up".into(), case.clone()))?;
    c04_judge(&g, &a, &outcome::generate(&g.text))
}

pub const C04_RULE: &str = "grammars from 4 mixed sources (random; textbook/repository seed + 0..6 structural edits; each optionally followed by reference-guided conflict repair), rendered with conventional names; oracle: generate()==Ok iff the reference LALR(1) automaton (canonical LR(1) collection merged by core) is conflict-free, Err must be TableConflict. Non-trivial = grammar is recursive and has >= 6 LALR states; distinct = canonical form of the CFG.";

pub fn c04_run(ctx: &Ctx) -> i32 {
    let mut rep = Report::new(ctx, C04_RULE);
    rep.assumptions = vec![
        "reference LALR(1) = canonical LR(1) collection merged by core, written from the textbook definition; grammars whose LR(1) collection exceeds 3000 states are discarded and counted".into(),
        "random grammars are bounded (<= 12 nonterminals, <= 14 terminals, <= 12 variants per enum, right-hand sides <= 14); larger ones come from the seed corpus (kiki.kiki: 24 nonterminals, 67 states) and from six scaled families (<= 300 nonterminals, <= 120 terminals, > 256 states, rules <= 40 symbols; ~1 % of the seed-based cases)".into(),
    ];
    regress(ctx, &mut rep, "C04", c04_replay);
    let cases = ctx.budget(400_000, 4_000_000);
    let out = run_sharded(ctx, "C04", cases, gen::raw_grammar, c04_test);
    rep.absorb("E1-proptest", out);
    if ctx.tier == Tier::Thorough {
        crate::fuzzrun::run_into(ctx, &mut rep, crate::fuzzrun::Campaign { target: "grammar_struct", prop: "C04", runs_total: (ctx.scale * 1_000_000.0) as u64, max_len: 300, seeds: vec![vec![0u8; 40], (0u8..200).collect()], dict: false });
    }
    quota_check(&mut rep, &["class:SLR(1)", "class:LALR(1)-not-SLR(1)", "class:LR(1)-not-LALR(1)", "class:not-LR(1)", "conflict-cells:shift/reduce", "conflict-cells:reduce/reduce", "conflict-cells:accept/reduce"]);
    rep.finish()
}

/// A run in which a class the check is built around never occurred is inconclusive, not a pass.
pub fn quota_check(rep: &mut Report, needed: &[&str]) {
    for c in needed {
        if rep.stats.classes.get(*c).copied().unwrap_or(0) == 0 {
            rep.internal.push(Failure::internal("empty-class", format!("generator produced no case of class `{c}`"), serde_json::Value::Null));
        }
    }
}

/// Replays every committed regression input of a property (corpus/regress/<id>/*.json).
pub fn regress(ctx: &Ctx, rep: &mut Report, prop: &str, f: fn(&serde_json::Value) -> Result<(), Failure>) {
    let dir = ctx.root.join("corpus").join("regress").join(prop);
    let Ok(rd) = std::fs::read_dir(&dir) else { return };
    let mut files: Vec<_> = rd.filter_map(|e| e.ok()).map(|e| e.path()).filter(|p| p.extension().map_or(false, |x| x == "json")).collect();
    files.sort();
    for p in files {
        let Ok(txt) = std::fs::read_to_string(&p) else { continue };
        let Ok(v) = serde_json::from_str::<serde_json::Value>(&txt) else {
            rep.internal.push(Failure::internal("bad-regress-file", format!("{} is not JSON", p.display()), serde_json::Value::Null));
            continue;
        };
        let case = if v.get("case").is_some() { v["case"].clone() } else { v };
        rep.regress_replayed += 1;
        rep.stats.evaluations += 1;
        if let Err(fail) = f(&case) {
            if fail.internal {
                rep.internal.push(fail);
            } else {
                rep.violations.push(fail);
            }
        }
    }
}

// ---------------------------------------------------------------------------
// C17

fn name_index(names: &[String], n: &str) -> Option<usize> {
    names.iter().position(|x| x == n)
}

pub fn c17_judge(g: &GCase, a: &Analysis, text: &str) -> Result<(), Failure> {
    let case = text_case(&g.text);
    let fail = |kind: &str, d: String| Err(Failure::new(kind, d, case.clone()));
    let e = match emitted::read(text) {
        Ok(e) => e,
        // a text the reader cannot parse says nothing about the tables' content: inconclusive, not a violation
        // (the emitted layout is frozen by the repository's snapshot tests; see DESIGN.md Appendix D)
        Err(m) => return Err(Failure::internal("unreadable-tables", format!("the harness cannot read the emitted tables: {m}"), case.clone())),
    };
    let cfg = &g.cfg;
    // column orders
    let want_terms: Vec<(String, usize)> = g.naming.terms.iter().cloned().enumerate().map(|(i, n)| (n, i)).collect();
    if e.term_cols != want_terms || e.eof_col != cfg.n_t {
        return fail("columns", format!("ACTION columns are {:?} + eof {} ; expected terminals in declaration order then end of input", e.term_cols, e.eof_col));
    }
    let want_nts: Vec<(String, usize)> = g.naming.nts.iter().cloned().enumerate().map(|(i, n)| (n, i)).collect();
    if e.nt_cols != want_nts {
        return fail("columns", format!("GOTO columns are {:?}; expected nonterminals in declaration order", e.nt_cols));
    }
    if e.rules.len() != cfg.rules.len() {
        return fail("rules", format!("{} rule kinds emitted, grammar has {} productions", e.rules.len(), cfg.rules.len()));
    }
    for (k, r) in cfg.rules.iter().enumerate() {
        let want = (r.rhs.len(), g.naming.nts[r.lhs as usize].clone());
        if e.rules[k] != want {
            return fail("rules", format!("rule R{k}: reduce function pops {} and yields kind {}, expected {:?}", e.rules[k].0, e.rules[k].1, want));
        }
    }
    let n = a.lalr.states.len();
    if e.action.len() != n {
        return fail(
            "state-count",
            format!("emitted tables have {} states, the LALR(1) automaton has {} (one per reachable LR(0) core)", e.action.len(), n),
        );
    }
    // state bijection by simultaneous BFS
    let mut map: Vec<Option<usize>> = vec![None; n];
    let mut used: Vec<Option<usize>> = vec![None; e.action.len()];
    if e.start >= e.action.len() {
        return fail("start", format!("start state S{} out of range", e.start));
    }
    map[a.lalr.start] = Some(e.start);
    used[e.start] = Some(a.lalr.start);
    let mut queue = vec![a.lalr.start];
    while let Some(s) = queue.pop() {
        let m = map[s].unwrap();
        for (sym, to) in &a.lalr.states[s].trans {
            let target = match sym {
                S::T(t) => match e.action[m][*t as usize] {
                    ECell::Shift(x) => x,
                    other => {
                        return fail(
                            "shift-missing",
                            format!("state S{m} (reference state {s}) on terminal {}: emitted {:?}, the automaton has a transition (shift)", g.naming.terms[*t as usize], other),
                        )
                    }
                },
                S::N(nt) => match e.goto[m][*nt as usize] {
                    Some(x) => x,
                    None => {
                        return fail(
                            "goto-missing",
                            format!("state S{m} (reference state {s}) on nonterminal {}: emitted None, the automaton has a transition", g.naming.nts[*nt as usize]),
                        )
                    }
                },
            };
            if target >= e.action.len() {
                return fail("target-range", format!("state S{m}: target S{target} out of range"));
            }
            match map[*to] {
                Some(x) if x == target => {}
                Some(x) => {
                    return fail("transition", format!("state S{m} on {sym:?} goes to S{target}, but the corresponding reference state is already matched with S{x}"))
                }
                None => {
                    if let Some(other) = used[target] {
                        return fail("transition", format!("emitted state S{target} corresponds to two different reference states ({other} and {to})"));
                    }
                    map[*to] = Some(target);
                    used[target] = Some(*to);
                    queue.push(*to);
                }
            }
        }
    }
    // every cell
    for s in 0..n {
        let Some(m) = map[s] else {
            return Err(Failure::internal("ref-unreachable", format!("reference state {s} unreachable"), case.clone()));
        };
        for q in 0..=cfg.n_t {
            let want = match a.lalr_tables.action[s][q].as_slice() {
                [] => ECell::Err,
                [Act::Shift(to)] => ECell::Shift(map[*to].unwrap()),
                [Act::Reduce(r)] => ECell::Reduce(*r),
                [Act::Accept] => ECell::Accept,
                _ => return Err(Failure::internal("ref-conflict", "reference tables have a conflict although kiki accepted (C04 decides that)".into(), case.clone())),
            };
            if e.action[m][q] != want {
                let qn = if q == cfg.n_t { "<end of input>".to_string() } else { g.naming.terms[q].clone() };
                return fail(
                    "action-cell",
                    format!(
                        "ACTION[S{m}][{qn}] = {:?}, LALR(1) table has {:?} (reference state {s}, items {})",
                        e.action[m][q],
                        want,
                        show_items(cfg, &a.lalr.states[s].items)
                    ),
                );
            }
        }
        for nt in 0..cfg.n_n {
            let want = a.lalr_tables.goto[s][nt].map(|t| map[t].unwrap());
            if e.goto[m][nt] != want {
                return fail("goto-cell", format!("GOTO[S{m}][{}] = {:?}, LALR(1) table has {:?}", g.naming.nts[nt], e.goto[m][nt], want));
            }
        }
    }
    Ok(())
}

pub fn show_items(cfg: &Cfg, items: &[(cfg::Core, cfg::Mask)]) -> String {
    let mut s = String::new();
    for (c, m) in items {
        let r = c.rule as usize;
        if r == cfg.rules.len() {
            s.push_str(&format!("[S' -> {}n{}{} ", if c.dot == 0 { "." } else { "" }, cfg.start, if c.dot == 1 { "." } else { "" }));
        } else {
            s.push_str(&format!("[n{} ->", cfg.rules[r].lhs));
            for (i, x) in cfg.rules[r].rhs.iter().enumerate() {
                if i == c.dot as usize {
                    s.push_str(" .");
                }
                match x {
                    S::T(t) => s.push_str(&format!(" t{t}")),
                    S::N(n) => s.push_str(&format!(" n{n}")),
                }
            }
            if c.dot as usize == cfg.rules[r].rhs.len() {
                s.push_str(" .");
            }
            s.push(' ');
        }
        s.push_str(&format!("/{m:b}] "));
    }
    s
}

fn c17_nontrivial(g: &GCase, a: &Analysis) -> bool {
    a.lalr.states.len() >= 8 && (cfg::lalr_strictly_tighter_than_follow(&g.cfg, a) || merged_with_different_lookaheads(a))
}

fn merged_with_different_lookaheads(a: &Analysis) -> bool {
    // some LALR state arose from >= 2 LR(1) states whose lookahead sets differ
    let mut first_seen: std::collections::HashMap<Vec<cfg::Core>, &Vec<(cfg::Core, cfg::Mask)>> = std::collections::HashMap::new();
    for st in &a.lr1.states {
        let core: Vec<cfg::Core> = st.items.iter().map(|(c, _)| *c).collect();
        match first_seen.get(&core) {
            Some(prev) => {
                if **prev != st.items {
                    return true;
                }
            }
            None => {
                first_seen.insert(core, &st.items);
            }
        }
    }
    false
}

fn c17_test(raw: &RawGrammar, st: &mut Stats) -> Result<(), Failure> {
    let g = grammar_case(raw);
    let Ok(a) = Analysis::new(&g.cfg) else {
        st.discard("reference LR(1) collection exceeds cap");
        return Ok(());
    };
    let out = outcome::generate(&g.text);
    let Outcome::Ok(text) = &out else {
        st.discard("not accepted by kiki (C04 judges that)");
        return Ok(());
    };
    if !a.lalr_ok() {
        st.discard("kiki accepted a grammar the reference finds conflicting (C04 judges that)");
        return Ok(());
    }
    classify(st, &g, &a);
    if c17_nontrivial(&g, &a) {
        st.nontrivial(&cfg::canon(&g.cfg));
        if st.want_sample() {
            st.sample(json!({"grammar": g.text, "lalr_states": a.lalr.states.len(), "lr1_states": a.lr1.states.len(), "class": format!("{:?}", a.class())}));
        }
        if merged_with_different_lookaheads(&a) {
            st.class("merge:lr1-states-with-different-lookaheads-merged");
        }
        if cfg::lalr_strictly_tighter_than_follow(&g.cfg, &a) {
            st.class("lookahead:strict-subset-of-FOLLOW");
        }
    }
    c17_judge(&g, &a, text)
}

pub fn c17_replay(case: &serde_json::Value) -> Result<(), Failure> {
    let text = case_text(case)?;
    let g = gcase_from_text(&text).map_err(|e| Failure::internal("bad-replay", e, case.clone()))?;
    let a = Analysis::new(&g.cfg).map_err(|_| Failure::internal("too-big", "reference gave up".into(), case.clone()))?;
    match outcome::generate(&g.text) {
        Outcome::Ok(t) => c17_judge(&g, &a, &t),
        o => Err(Failure::internal("not-accepted", format!("kiki no longer accepts this grammar: {}", o.brief()), case.clone())),
    }
}

pub const C17_RULE: &str = "accepted grammars from the 4 mixed sources; ACTION/GOTO tables, start state, column order and per-rule pop counts are read from the emitted text and compared cell by cell with the reference LALR(1) tables under the state bijection built by simultaneous BFS. Non-trivial = >= 8 LALR states and (some reduce lookahead set is a strict subset of FOLLOW, or LR(1) states with different lookaheads were merged); distinct = canonical form of the CFG.";

pub fn c17_run(ctx: &Ctx) -> i32 {
    let mut rep = Report::new(ctx, C17_RULE);
    rep.assumptions = vec![
        "reference LALR(1) = canonical LR(1) collection merged by core; grammars beyond 3000 LR(1) states are discarded and counted".into(),
        "only grammars kiki accepts are judged (C04 decides acceptance)".into(),
    ];
    regress(ctx, &mut rep, "C17", c17_replay);
    let cases = ctx.budget(400_000, 4_000_000);
    let out = run_sharded(ctx, "C17", cases, gen::raw_grammar, c17_test);
    rep.absorb("E1-proptest", out);
    if ctx.tier == Tier::Thorough {
        crate::fuzzrun::run_into(ctx, &mut rep, crate::fuzzrun::Campaign { target: "grammar_struct", prop: "C17", runs_total: (ctx.scale * 1_000_000.0) as u64, max_len: 300, seeds: vec![vec![0u8; 40], (0u8..200).collect()], dict: false });
    }
    quota_check(&mut rep, &["class:SLR(1)", "class:LALR(1)-not-SLR(1)", "merge:lr1-states-with-different-lookaheads-merged"]);
    rep.finish()
}

// ---------------------------------------------------------------------------
// C11

#[derive(Clone, Copy, Debug, PartialEq, Eq)]
enum Demand {
    Shift,
    Reduce(usize),
    Accept,
}

pub fn c11_judge(g: &GCase, a: &Analysis, e: &kiki::TableConflictErr) -> Result<(), Failure> {
    use kiki::machine::{Lookahead, RuleIndex};
    let case = text_case(&g.text);
    let fail = |kind: &str, d: String| Err(Failure::new(kind, d, case.clone()));
    let cfg = &g.cfg;
    let m = &e.machine;
    let si = e.state_index.0;
    if si >= m.states.len() {
        return fail("state-index", format!("state_index {si} is not a state of the attached automaton ({} states)", m.states.len()));
    }
    let state = &m.states[si];
    for (k, it) in [&e.items.0, &e.items.1].iter().enumerate() {
        if !state.items.iter().any(|x| x == *it) {
            return fail("item-not-in-state", format!("reported item #{k} {:?} is not an item of state {si}", it));
        }
    }
    let aug = cfg.rules.len();
    let demand = |it: &kiki::machine::StateItem| -> Result<(usize, Demand), String> {
        let la = match &it.lookahead {
            Lookahead::Eof => cfg.n_t,
            Lookahead::Terminal(t) => name_index(&g.naming.terms, t.raw()).ok_or(format!("unknown lookahead terminal {}", t.raw()))?,
        };
        let r = match it.rule_index {
            RuleIndex::Augmented => aug,
            RuleIndex::Original(i) => {
                if i >= aug {
                    return Err(format!("rule index {i} out of range"));
                }
                i
            }
        };
        match cfg.sym_at(r, it.dot) {
            Some(S::T(t)) => Ok((t as usize, Demand::Shift)),
            Some(S::N(_)) => Err(format!("item {it:?} has a nonterminal after the dot: it demands no parser action")),
            None => {
                if it.dot != cfg.rhs_len(r) {
                    return Err(format!("item {it:?}: dot beyond the end of the rule"));
                }
                if r == aug {
                    if la != cfg.n_t {
                        return Err("completed augmented item with a lookahead other than end of input".into());
                    }
                    Ok((la, Demand::Accept))
                } else {
                    Ok((la, Demand::Reduce(r)))
                }
            }
        }
    };
    let d0 = match demand(&e.items.0) {
        Ok(d) => d,
        Err(s) => return fail("no-demand", s),
    };
    let d1 = match demand(&e.items.1) {
        Ok(d) => d,
        Err(s) => return fail("no-demand", s),
    };
    if d0.0 != d1.0 {
        return fail("different-lookahead", format!("the two items demand actions on different symbols: {:?} vs {:?}", d0, d1));
    }
    if d0.1 == d1.1 {
        return fail("same-action", format!("the two items demand the same action {:?}: not a conflict", d0));
    }
    // the attached grammar is the validated input grammar
    let want = normal_form(&crate::spec::to_rfile(&g.spec, &g.naming));
    let got = kiki_file_to_rfile(&e.file);
    if want != got {
        return fail("file-mismatch", format!("attached grammar differs from the input grammar:\nattached {got:?}\ninput    {want:?}"));
    }
    // the attached automaton is the LALR(1) automaton
    let n = a.lalr.states.len();
    if m.states.len() != n {
        return fail("machine-state-count", format!("attached automaton has {} states, the LALR(1) automaton has {n}", m.states.len()));
    }
    let mut trans: Vec<Vec<(S, usize)>> = vec![vec![]; n];
    for t in m.transitions.iter() {
        if t.from.0 >= n || t.to.0 >= n {
            return fail("machine-transition-range", format!("transition {:?} refers to a missing state", t));
        }
        let sym = match &t.symbol {
            kiki::Symbol::Terminal(x) => match name_index(&g.naming.terms, x.raw()) {
                Some(i) => S::T(i as u16),
                None => return fail("machine-symbol", format!("unknown terminal {} in a transition", x.raw())),
            },
            kiki::Symbol::Nonterminal(x) => match name_index(&g.naming.nts, x) {
                Some(i) => S::N(i as u16),
                None => return fail("machine-symbol", format!("unknown nonterminal {x} in a transition")),
            },
        };
        trans[t.from.0].push((sym, t.to.0));
    }
    let total_ref_trans: usize = a.lalr.states.iter().map(|s| s.trans.len()).sum();
    if m.transitions.len() != total_ref_trans {
        return fail("machine-transition-count", format!("attached automaton has {} transitions, the LALR(1) automaton has {total_ref_trans}", m.transitions.len()));
    }
    if m.start.0 >= n {
        return fail("machine-start", "start index out of range".into());
    }
    let mut map: Vec<Option<usize>> = vec![None; n];
    let mut used = vec![false; n];
    map[a.lalr.start] = Some(m.start.0);
    used[m.start.0] = true;
    let mut queue = vec![a.lalr.start];
    while let Some(s) = queue.pop() {
        let ms = map[s].unwrap();
        // items
        let mut want_items: BTreeSet<(usize, usize, usize)> = BTreeSet::new();
        for (c, mask) in &a.lalr.states[s].items {
            for q in 0..=cfg.n_t {
                if mask >> q & 1 == 1 {
                    want_items.insert((c.rule as usize, c.dot as usize, q));
                }
            }
        }
        let mut got_items: BTreeSet<(usize, usize, usize)> = BTreeSet::new();
        for it in m.states[ms].items.iter() {
            let r = match it.rule_index {
                RuleIndex::Augmented => aug,
                RuleIndex::Original(i) => i,
            };
            let la = match &it.lookahead {
                Lookahead::Eof => cfg.n_t,
                Lookahead::Terminal(t) => match name_index(&g.naming.terms, t.raw()) {
                    Some(i) => i,
                    None => return fail("machine-symbol", format!("unknown lookahead {}", t.raw())),
                },
            };
            got_items.insert((r, it.dot, la));
        }
        if want_items != got_items {
            let extra: Vec<_> = got_items.difference(&want_items).collect();
            let missing: Vec<_> = want_items.difference(&got_items).collect();
            return fail(
                "machine-items",
                format!("state {ms} of the attached automaton differs from the LALR(1) state: extra (rule,dot,lookahead) {extra:?}, missing {missing:?}"),
            );
        }
        // transitions
        if trans[ms].len() != a.lalr.states[s].trans.len() {
            return fail("machine-transitions", format!("state {ms}: {} outgoing transitions, LALR(1) state has {}", trans[ms].len(), a.lalr.states[s].trans.len()));
        }
        for (sym, to) in &a.lalr.states[s].trans {
            let outs: Vec<usize> = trans[ms].iter().filter(|(x, _)| x == sym).map(|(_, t)| *t).collect();
            if outs.len() != 1 {
                return fail("machine-transitions", format!("state {ms}: {} transitions on {sym:?}, expected exactly 1", outs.len()));
            }
            match map[*to] {
                Some(x) if x == outs[0] => {}
                Some(x) => return fail("machine-transitions", format!("state {ms} on {sym:?} leads to {} but the matching state is {x}", outs[0])),
                None => {
                    if used[outs[0]] {
                        return fail("machine-transitions", format!("attached state {} matches two LALR(1) states", outs[0]));
                    }
                    map[*to] = Some(outs[0]);
                    used[outs[0]] = true;
                    queue.push(*to);
                }
            }
        }
    }
    // the reported cell really is a conflict cell of the reference table too
    let rs = map.iter().position(|x| *x == Some(si));
    match rs {
        Some(rs) => {
            if a.lalr_tables.action[rs][d0.0].len() < 2 {
                return fail("not-a-conflict-cell", format!("reference LALR(1) table has no conflict in the reported state on symbol {}", d0.0));
            }
        }
        None => return fail("state-index", format!("reported state {si} is not reachable in the attached automaton")),
    }
    Ok(())
}

fn c11_test(raw: &RawGrammar, st: &mut Stats) -> Result<(), Failure> {
    let g = grammar_case(raw);
    let Ok(a) = Analysis::new(&g.cfg) else {
        st.discard("reference LR(1) collection exceeds cap");
        return Ok(());
    };
    let out = outcome::generate(&g.text);
    let Outcome::TableConflict(e) = &out else {
        st.discard("no table conflict reported (C04 judges whether that is right)");
        return Ok(());
    };
    if a.lalr_ok() {
        st.discard("kiki reports a conflict the reference does not find (C04 judges that)");
        return Ok(());
    }
    classify(st, &g, &a);
    let si = e.state_index.0;
    if si != e.machine.start.0 && a.lalr.states.len() >= 8 {
        st.nontrivial(&cfg::canon(&g.cfg));
        if st.want_sample() {
            st.sample(json!({"grammar": g.text, "state_index": si, "items": format!("{:?}", e.items), "lalr_states": a.lalr.states.len()}));
        }
    }
    c11_judge(&g, &a, e)
}

pub fn c11_replay(case: &serde_json::Value) -> Result<(), Failure> {
    let text = case_text(case)?;
    let g = gcase_from_text(&text).map_err(|e| Failure::internal("bad-replay", e, case.clone()))?;
    let a = Analysis::new(&g.cfg).map_err(|_| Failure::internal("too-big", "reference gave up".into(), case.clone()))?;
    match outcome::generate(&g.text) {
        Outcome::TableConflict(e) => c11_judge(&g, &a, &e),
        o => Err(Failure::internal("no-conflict", format!("kiki no longer reports a conflict: {}", o.brief()), case.clone())),
    }
}

pub const C11_RULE: &str = "conflicting grammars from the 4 mixed sources; the TableConflict payload is checked: state index in range, both items members of that state, each item's demanded action (shift on the terminal after the dot / reduce or accept on its lookahead) computed from the grammar, same symbol and different actions, attached grammar equal to the input, attached automaton isomorphic (items with lookaheads, transitions, state count) to the reference LALR(1) automaton. Non-trivial = conflict state is not the start state and the automaton has >= 8 states; distinct = canonical form of the CFG.";

pub fn c11_run(ctx: &Ctx) -> i32 {
    let mut rep = Report::new(ctx, C11_RULE);
    rep.assumptions = vec!["reference LALR(1) = canonical LR(1) collection merged by core; grammars beyond 3000 LR(1) states are discarded and counted".into()];
    regress(ctx, &mut rep, "C11", c11_replay);
    let cases = ctx.budget(400_000, 4_000_000);
    let out = run_sharded(ctx, "C11", cases, gen::raw_grammar, c11_test);
    rep.absorb("E1-proptest", out);
    if ctx.tier == Tier::Thorough {
        crate::fuzzrun::run_into(ctx, &mut rep, crate::fuzzrun::Campaign { target: "grammar_struct", prop: "C11", runs_total: (ctx.scale * 1_000_000.0) as u64, max_len: 300, seeds: vec![vec![0u8; 40], (0u8..200).collect()], dict: false });
    }
    quota_check(&mut rep, &["conflict-cells:shift/reduce", "conflict-cells:reduce/reduce", "conflict-cells:accept/reduce"]);
    rep.finish()
}
