//! C01 (language), C02 (derivation tree), C03 (error token / no over-consumption):
//! decided by compiling the emitted parser with rustc and running it (engine E2).

use super::common::*;
use super::lalr::quota_check;
use crate::cfg::{self, Analysis, Cfg, Parse, Tree};
use crate::e2::{self, Obs, Payload, RunResult, Scratch, PAYLOADS};
use crate::engine::*;
use crate::gen::{self, pick, RawGrammar};
use crate::layout::Chooser;
use crate::outcome::{self, Outcome};
use crate::spec::{self, Naming, Spec};
use proptest::prelude::*;
use serde_json::{json, Value};
use std::collections::BTreeSet;
use std::time::Duration;

#[derive(Clone, Copy, Debug, PartialEq, Eq)]
pub enum Which {
    C01,
    C02,
    C03,
}

#[derive(Clone, Debug)]
pub struct RawE2 {
    pub grammar: RawGrammar,
    pub choices: Vec<u16>,
}

fn raw_e2(which: Which) -> impl Strategy<Value = RawE2> {
    (gen::raw_grammar(), proptest::collection::vec(any::<u16>(), 8..64)).prop_map(move |(mut grammar, choices)| {
        // 3 of 4 cases with conflict repair: raises the yield of accepted grammars
        if choices[0] % 4 != 0 {
            grammar.source |= 2;
        }
        // one case in 32 is a scaled family (large tables, many kinds): the emitted `parse` loop, its indexing
        // code and the node conversions are only ever *executed* here
        if choices[5] % 32 == 0 {
            grammar.source = 1;
            grammar.seed_ix = 0xFAAB + choices[6] % 0x0554;
            grammar.edits.truncate(1);
            if choices[7] % 3 == 0 {
                grammar.start = 0xFFFF; // the family's maximum size
            }
        }
        if which == Which::C02 {
            // tree building is where the fieldset form and the `_` mask matter: half of the random fieldsets are made
            // named ones, and a third of the fields that were generated as used become `_`
            for (i, nt) in grammar.nts.iter_mut().enumerate() {
                for (j, v) in nt.variants.iter_mut().enumerate() {
                    let c = choices[(i * 7 + j * 3 + 5) % choices.len()];
                    if c % 2 == 0 && v.form != 0 {
                        v.form = 1;
                    }
                    for (k, f) in v.fields.iter_mut().enumerate() {
                        if choices[(i + j + k * 5 + 6) % choices.len()] % 3 == 0 {
                            f.1 = false;
                        }
                    }
                }
            }
        }
        RawE2 { grammar, choices }
    })
}

/// G7 — token strings for a grammar.
pub fn inputs_for(cfg: &Cfg, a: &Analysis, ch: &mut Chooser, which: Which) -> Vec<Vec<u16>> {
    let mut set: BTreeSet<Vec<u16>> = BTreeSet::new();
    let nt = cfg.n_t;
    set.insert(vec![]);
    // all strings up to a length such that there are <= cap of them
    let cap = match which {
        Which::C02 => 60,
        _ => 400,
    };
    if nt > 0 {
        let mut level: Vec<Vec<u16>> = vec![vec![]];
        let mut total = 1usize;
        loop {
            let next_count = level.len() * nt;
            if total + next_count > cap || level[0].len() >= 7 {
                break;
            }
            let mut next = Vec::with_capacity(next_count);
            for s in &level {
                for t in 0..nt {
                    let mut x = s.clone();
                    x.push(t as u16);
                    next.push(x);
                }
            }
            total += next.len();
            for s in &next {
                set.insert(s.clone());
            }
            level = next;
        }
    }
    // random derivations
    let heights = cfg::min_heights(cfg);
    let mut sentences: Vec<Vec<u16>> = vec![];
    let n_deriv = match which {
        Which::C02 => 200,
        _ => 32,
    };
    for k in 0..n_deriv {
        let choices: Vec<u16> = (0..24).map(|_| ch.next()).collect();
        let budget = [3, 6, 12, 24, 40, 8, 16, 56][k % 8];
        if let Some(t) = cfg::random_derivation(cfg, &heights, &choices, budget) {
            let mut leaves = vec![];
            t.leaves(&mut leaves);
            if leaves.len() <= 64 {
                let s: Vec<u16> = leaves.iter().map(|(t, _)| *t).collect();
                sentences.push(s.clone());
                set.insert(s);
            }
        }
    }
    // a few long sentences (deep trees): "token sequences of any length"
    for k in 0..3 {
        let choices: Vec<u16> = (0..40).map(|_| ch.next()).collect();
        if let Some(t) = cfg::random_derivation_deep(cfg, &heights, &choices, [400, 1200, 2500][k], 1500) {
            let mut leaves = vec![];
            t.leaves(&mut leaves);
            if leaves.len() > 64 && leaves.len() <= 4000 {
                let s: Vec<u16> = leaves.iter().map(|(t, _)| *t).collect();
                if which != Which::C02 && !s.is_empty() {
                    // and a damaged copy
                    let mut m = s.clone();
                    let at = ch.pick(m.len());
                    m.remove(at);
                    set.insert(m);
                }
                set.insert(s);
            }
        }
    }
    if nt > 0 && which != Which::C02 {
        // mutants and prefixes of sentences
        for s in sentences.iter().take(16) {
            for _ in 0..3 {
                let mut m = s.clone();
                match ch.pick(3) {
                    0 if !m.is_empty() => {
                        let at = ch.pick(m.len());
                        m[at] = ch.pick(nt) as u16;
                    }
                    1 if !m.is_empty() => {
                        let at = ch.pick(m.len());
                        m.remove(at);
                    }
                    _ => {
                        let at = ch.pick(m.len() + 1);
                        m.insert(at, ch.pick(nt) as u16);
                    }
                }
                set.insert(m);
            }
            if !s.is_empty() {
                let cut = ch.pick(s.len());
                set.insert(s[..cut].to_vec());
                if s.len() > 1 {
                    set.insert(s[..s.len() - 1].to_vec());
                }
            }
        }
        // uniformly random strings
        for _ in 0..12 {
            let len = ch.pick(20);
            set.insert((0..len).map(|_| ch.pick(nt) as u16).collect());
        }
    }
    let _ = a;
    set.into_iter().collect()
}

#[derive(Clone, Debug)]
pub enum Expect {
    Accept(Tree),
    /// Some(i): first offending token index; None: end of input
    Reject(Option<usize>),
}

/// Reference verdict for one input; Err = the two references disagree (harness problem, never a violation).
pub fn expectation(cfg: &Cfg, a: &Analysis, all_productive: bool, input: &[u16]) -> Result<Expect, String> {
    // Earley is cubic in the worst case: long inputs are judged by the reference LR(1) driver alone
    let long = input.len() > 200;
    let e = if long { cfg::EarleyResult { accepted: false, dead_at: None } } else { cfg::earley(cfg, &a.sets, input) };
    let lr = cfg::drive(cfg, a.lr1.start, &a.lr1_tables, input);
    match lr {
        Parse::Accept(tree) => {
            if !long && !e.accepted {
                return Err(format!("LR(1) reference accepts {input:?}, Earley does not"));
            }
            let mut leaves = vec![];
            tree.leaves(&mut leaves);
            let ok = leaves.len() == input.len() && leaves.iter().enumerate().all(|(i, (t, p))| *p == i && *t == input[i]);
            if !ok {
                return Err("reference derivation tree does not match the input left to right".into());
            }
            Ok(Expect::Accept(tree))
        }
        Parse::Error(ix) => {
            if !long && e.accepted {
                return Err(format!("Earley accepts {input:?}, LR(1) reference does not"));
            }
            if !long && all_productive && e.dead_at != ix {
                return Err(format!("on {input:?} the Earley viable-prefix index is {:?}, the LR(1) reference stops at {ix:?}", e.dead_at));
            }
            Ok(Expect::Reject(ix))
        }
        Parse::Diverged => Err("skip: reference LR(1) driver exceeded its step bound".into()),
    }
}

/// KNOWN FINDING C01/lr-epsilon-loop: with unproductive nonterminals the LR construction (kiki's and the
/// textbook's alike) can contain an epsilon-reduction cycle; the emitted parser then never returns on inputs
/// that reach it. Such (grammar, input) pairs — exactly those on which the reference canonical LR(1) driver
/// itself does not stop — are excluded by construction and counted.
pub fn exclude_lr_loops(cfg: &Cfg, a: &Analysis, inputs: &mut Vec<Vec<u16>>, st: &mut Stats) {
    if a.sets.productive.iter().all(|b| *b) {
        return;
    }
    let before = inputs.len();
    inputs.retain(|inp| !matches!(cfg::drive_bounded(cfg, a.lr1.start, &a.lr1_tables, inp, 20_000), Parse::Diverged));
    let n = (before - inputs.len()) as u64;
    if n > 0 {
        *st.extra.entry("excluded-known:lr-epsilon-loop".into()).or_insert(0) += n;
    }
}

pub struct E2Case {
    pub spec: Spec,
    pub naming: Naming,
    pub payload: Vec<Payload>,
    pub text: String,
    pub inputs: Vec<Vec<u16>>,
}

fn case_json(c: &E2Case, failing_input: Option<&[u16]>) -> Value {
    json!({
        "source": c.text,
        "payload": c.payload.iter().map(|p| format!("{p:?}")).collect::<Vec<_>>(),
        "inputs": c.inputs,
        "failing_input": failing_input,
    })
}

fn payload_from_name(s: &str) -> Payload {
    PAYLOADS.iter().copied().find(|p| format!("{p:?}") == s).unwrap_or(Payload::Usize)
}

pub const OFFSETS: [usize; 2] = [0, 1000];

/// Some(description) iff the reference reading of the grammar text and the reader of the emitted type definitions
/// both succeed and disagree on the shape of a type (the oracle of C06, re-used as a tie-breaker by C02).
fn declared_shape_difference(grammar_text: &str, emitted: &str) -> Option<String> {
    let toks = crate::reftok::tokenize(grammar_text).ok()?;
    let file = crate::refparse::read_file(&toks).ok()?;
    let (spec, nm) = crate::spec::from_rfile(&file)?;
    crate::emitted::read_types(emitted).ok()?;
    crate::props::hygiene::c06_text(&spec, &nm, emitted).err()
}

/// Compiles and runs one case and judges it for property `which`. Returns the per-input expectations for statistics.
pub fn judge_case(ctx: &Ctx, c: &E2Case, which: Which) -> Result<Vec<Expect>, Failure> {
    let cfg = c.spec.cfg();
    let case0 = case_json(c, None);
    let a = Analysis::new(&cfg).map_err(|_| Failure::internal("too-big", "reference gave up".into(), case0.clone()))?;
    let emitted = match outcome::generate(&c.text) {
        Outcome::Ok(t) => t,
        o => return Err(Failure::internal("not-accepted", format!("kiki does not accept this grammar: {}", o.brief()), case0)),
    };
    let all_productive = a.sets.productive.iter().all(|b| *b);
    let mut expects = vec![];
    for inp in &c.inputs {
        match expectation(&cfg, &a, all_productive, inp) {
            Ok(e) => expects.push(e),
            Err(m) if m.starts_with("skip:") => return Err(Failure::internal("skip:reference-step-bound", m, case_json(c, Some(inp)))),
            Err(m) => return Err(Failure::internal("oracle-inconsistency", m, case_json(c, Some(inp)))),
        }
    }
    let scratch = Scratch::new(&ctx.root, "e2").map_err(|e| Failure::internal("scratch", e.to_string(), Value::Null))?;
    std::fs::write(scratch.dir.join("g.rs"), &emitted).map_err(|e| Failure::internal("scratch", e.to_string(), Value::Null))?;
    let client = e2::client_source(&c.spec, &c.naming, &c.payload, &c.inputs, &OFFSETS);
    std::fs::write(scratch.dir.join("main.rs"), &client).map_err(|e| Failure::internal("scratch", e.to_string(), Value::Null))?;
    let comp = e2::rustc(&scratch.dir, "main.rs", "client", false);
    if !comp.ok {
        if comp.diagnostics.contains("cannot run rustc") {
            return Err(Failure::internal("rustc-missing", comp.diagnostics, Value::Null));
        }
        // is the emitted module to blame, or the generated client? compile the module alone
        std::fs::write(scratch.dir.join("alone.rs"), "#![allow(warnings)]\npub struct Pos(pub usize);\n#[path = \"g.rs\"]\npub mod m;\n").ok();
        let alone = e2::rustc(&scratch.dir, "alone.rs", "alone.rmeta", true);
        if alone.ok {
            // The client destructures every node in the declared shape. If only the client fails AND the independent
            // reader of the emitted type definitions finds them different from the declarations (a used field dropped,
            // a `_` field kept, ...), the returned value cannot be the derivation tree: C02 is violated. Otherwise the
            // harness is to blame and the case is inconclusive.
            if which == Which::C02 {
                if let Some(diff) = declared_shape_difference(&c.text, &emitted) {
                    return Err(Failure::new(
                        "tree-type-cannot-hold-derivation",
                        format!(
                            "the emitted tree types differ from the declared fieldsets, so no returned value can be the derivation tree: {diff}\n(client errors: {})",
                            first_errors(&comp.diagnostics)
                        ),
                        case0,
                    ));
                }
            }
            return Err(Failure::internal("client-does-not-compile", first_errors(&comp.diagnostics), case0));
        }
        return match which {
            Which::C01 => Err(Failure::new(
                "emitted-parser-does-not-compile",
                format!("the emitted module (conventional names) does not compile, so there is no parse function:\n{}", first_errors(&alone.diagnostics)),
                case0,
            )),
            // C01 / C05 judge this; the search of C02 / C03 goes on with other grammars (counted as discarded)
            _ => Err(Failure::internal("skip:emitted-parser-does-not-compile", first_errors(&alone.diagnostics), case0)),
        };
    }
    let run = e2::run_binary(&scratch.dir, "client", &[], Duration::from_secs(20), 2 << 30);
    let out = match run {
        RunResult::Finished(o) => o,
        RunResult::Died(o, how) => {
            let (_, _, last) = e2::parse_output(&o);
            let inp = last.and_then(|i| c.inputs.get(i));
            let f = Failure::new(
                "parser-crashed",
                format!("the compiled parser died ({how}) while parsing input {:?} (memory limit 2 GiB; unbounded growth or abort)", inp),
                case_json(c, inp.map(|v| v.as_slice())),
            );
            return if which == Which::C01 { Err(f) } else { Err(Failure::internal("parser-crashed", f.detail, f.case)) };
        }
        RunResult::Timeout(o) => {
            let (_, _, last) = e2::parse_output(&o);
            let Some(i) = last else { return Err(Failure::internal("watchdog", "client produced no output within 20 s".into(), case0)) };
            // confirm alone with a much longer limit
            let again = e2::run_binary(&scratch.dir, "client", &[i.to_string()], Duration::from_secs(120), 2 << 30);
            return match again {
                RunResult::Timeout(_) if c.inputs[i].len() <= 64 && which == Which::C01 => Err(Failure::new(
                    "parser-does-not-terminate",
                    format!("parse did not return within 120 s on the {}-token input {:?}", c.inputs[i].len(), c.inputs[i]),
                    case_json(c, Some(&c.inputs[i])),
                )),
                _ => Err(Failure::internal("watchdog", format!("watchdog tripped on input {i}, not confirmed"), case_json(c, Some(&c.inputs[i])))),
            };
        }
    };
    let (obs, done, _) = e2::parse_output(&out);
    if !done {
        return Err(Failure::internal("client-output", "client finished without DONE line".into(), case0));
    }
    for (i, inp) in c.inputs.iter().enumerate() {
        for off in OFFSETS {
            let Some(o) = obs.get(&(i, off)) else {
                return Err(Failure::internal("client-output", format!("no result line for input {i} offset {off}"), case0));
            };
            let casef = || case_json(c, Some(inp));
            let n = inp.len();
            match (&expects[i], o, which) {
                (_, Obs::Panic { .. }, Which::C01) => {
                    return Err(Failure::new("parser-panicked", format!("parse panicked on input {inp:?}"), casef()));
                }
                // C01 judges panics; C02 / C03 go on with the other inputs
                (_, Obs::Panic { .. }, _) => continue,
                (Expect::Accept(_), Obs::Ok { .. }, Which::C01) | (Expect::Reject(_), Obs::ErrSome { .. } | Obs::ErrNone { .. }, Which::C01) => {}
                (Expect::Accept(_), other, Which::C01) => {
                    return Err(Failure::new(
                        "rejects-sentence",
                        format!("input {inp:?} (payload offset {off}) is derivable from the start symbol but parse returned {other:?}"),
                        casef(),
                    ))
                }
                (Expect::Reject(ix), Obs::Ok { sexpr, .. }, Which::C01) => {
                    return Err(Failure::new(
                        "accepts-non-sentence",
                        format!("input {inp:?} (payload offset {off}) is not derivable (reference stops at {ix:?}) but parse returned Ok({sexpr})"),
                        casef(),
                    ))
                }
                (Expect::Accept(tree), Obs::Ok { sexpr, .. }, Which::C02) => {
                    let want = e2::expected_sexpr(tree, &c.spec, &c.naming, &c.payload, off);
                    if *sexpr != want {
                        return Err(Failure::new(
                            "wrong-tree",
                            format!("input {inp:?} (payload offset {off}):\n  parse returned {sexpr}\n  derivation is   {want}"),
                            casef(),
                        ));
                    }
                }
                (Expect::Reject(Some(ix)), Obs::ErrSome { kind, pos, pulled }, Which::C03) => {
                    let want_pos = if c.payload[inp[*ix] as usize].carries_position() { format!("#{}", ix + off) } else { "()".to_string() };
                    if *kind != inp[*ix] as usize || *pos != want_pos {
                        return Err(Failure::new(
                            "wrong-error-token",
                            format!("input {inp:?} (payload offset {off}): first offending token is #{ix} (kind {}, payload {want_pos}); parse returned Err(Some(kind {kind}, payload {pos}))", inp[*ix]),
                            casef(),
                        ));
                    }
                    if *pulled != ix + 1 {
                        return Err(Failure::new(
                            "over-consumption",
                            format!("input {inp:?}: error token is #{ix} but {pulled} items were pulled from the iterator (expected {})", ix + 1),
                            casef(),
                        ));
                    }
                }
                (Expect::Reject(None), Obs::ErrNone { pulled }, Which::C03) => {
                    if *pulled != n {
                        return Err(Failure::internal("pulled-count", format!("Err(None) with pulled={pulled} on an input of {n} tokens"), casef()));
                    }
                }
                (Expect::Reject(want), got @ (Obs::ErrSome { .. } | Obs::ErrNone { .. }), Which::C03) => {
                    return Err(Failure::new(
                        "wrong-error-kind",
                        format!("input {inp:?} (payload offset {off}): expected {} but parse returned {got:?}", match want {
                            Some(i) => format!("Err(Some(token #{i}))"),
                            None => "Err(None)".to_string(),
                        }),
                        casef(),
                    ))
                }
                // rejected inputs are not C02's subject, accepted ones not C03's
                (Expect::Reject(_), Obs::ErrSome { .. } | Obs::ErrNone { .. }, Which::C02) => {}
                (Expect::Accept(_), Obs::Ok { .. }, Which::C03) => {}
                // acceptance mismatches are C01's; C02 / C03 go on with the other inputs
                (Expect::Accept(_), _, _) | (Expect::Reject(_), Obs::Ok { .. }, _) => continue,
            }
        }
    }
    Ok(expects)
}

// ---------------------------------------------------------------------------
// Table-level half (E1): the ACTION/GOTO tables, start state and per-rule pop counts are read from the
// emitted TEXT and interpreted by a small LR driver; breadth (100x more grammars than the compiled half).
// It cannot see bugs in the emitted driver loop or reduce functions — that is what the compiled half decides.

#[derive(Debug, PartialEq, Eq)]
enum TableRun {
    Accept,
    Error(Option<usize>),
    Diverged,
    Broken(String),
}

fn drive_emitted(e: &crate::emitted::Emitted, nt_col: &std::collections::BTreeMap<&str, usize>, n_t: usize, input: &[u16]) -> TableRun {
    use crate::emitted::ECell;
    let mut states = vec![e.start];
    let mut i = 0usize;
    let mut steps = 0usize;
    loop {
        steps += 1;
        if steps > 400_000 {
            // more than 400 000 reductions without consuming a token
            return TableRun::Diverged;
        }
        let q = if i < input.len() { input[i] as usize } else { n_t };
        let top = *states.last().unwrap();
        let Some(cell) = e.action.get(top).and_then(|r| r.get(q)) else { return TableRun::Broken(format!("no ACTION cell [{top}][{q}]")) };
        match *cell {
            ECell::Err => return TableRun::Error(if i < input.len() { Some(i) } else { None }),
            ECell::Accept => return TableRun::Accept,
            ECell::Shift(to) => {
                if i >= input.len() {
                    return TableRun::Broken("shift on end of input".into());
                }
                states.push(to);
                i += 1;
                steps = 0;
            }
            ECell::Reduce(r) => {
                let Some((pops, kind)) = e.rules.get(r) else { return TableRun::Broken(format!("no rule R{r}")) };
                if *pops >= states.len() {
                    return TableRun::Broken(format!("R{r} pops {pops} of {} states", states.len()));
                }
                states.truncate(states.len() - pops);
                let Some(col) = nt_col.get(kind.as_str()) else { return TableRun::Broken(format!("unknown nonterminal kind {kind}")) };
                match e.goto.get(*states.last().unwrap()).and_then(|r| r.get(*col)) {
                    Some(Some(to)) => states.push(*to),
                    // the emitted driver returns Err(next token) in this case
                    _ => return TableRun::Error(if i < input.len() { Some(i) } else { None }),
                }
            }
        }
    }
}

fn table_level_test(raw: &RawGrammar, which: Which, st: &mut Stats) -> Result<(), Failure> {
    let g = grammar_case(raw);
    let Ok(a) = Analysis::new(&g.cfg) else {
        st.discard("reference LR(1) collection exceeds cap");
        return Ok(());
    };
    let Outcome::Ok(text) = outcome::generate(&g.text) else {
        st.discard("not accepted by kiki");
        return Ok(());
    };
    if !a.lalr_ok() {
        st.discard("kiki accepted a grammar the reference finds conflicting (C04 judges that)");
        return Ok(());
    }
    let Ok(e) = crate::emitted::read(&text) else {
        st.discard("emitted tables unreadable (C17 judges that)");
        return Ok(());
    };
    let nt_col: std::collections::BTreeMap<&str, usize> = e.nt_cols.iter().map(|(n, c)| (n.as_str(), *c)).collect();
    let choice_src = [raw.seed_ix, raw.start, raw.slots.0, raw.slots.1, 0x3333, 0xA5A5];
    let mut ch = Chooser::new(&choice_src);
    let mut inputs = inputs_for(&g.cfg, &a, &mut ch, Which::C02);
    exclude_lr_loops(&g.cfg, &a, &mut inputs, st);
    let all_productive = a.sets.productive.iter().all(|b| *b);
    let sh = cfg::shape(&g.cfg, &a.sets);
    let canon = cfg::canon(&g.cfg);
    for inp in inputs.iter().filter(|i| i.len() <= 200) {
        let case = || json!({"source": g.text, "failing_input": inp, "level": "tables read from the emitted text"});
        let ea = cfg::earley(&g.cfg, &a.sets, inp);
        let want_ix = if all_productive {
            ea.dead_at
        } else {
            match cfg::drive(&g.cfg, a.lr1.start, &a.lr1_tables, inp) {
                Parse::Error(ix) => ix,
                _ => None,
            }
        };
        let got = drive_emitted(&e, &nt_col, g.cfg.n_t, inp);
        st.extra.entry("table-level-strings".into()).and_modify(|x| *x += 1).or_insert(1);
        match (&got, which) {
            (TableRun::Broken(m), _) => return Err(Failure::internal("table-level-broken", format!("cannot interpret the emitted tables: {m} (C17 judges the tables)"), case())),
            (TableRun::Diverged, Which::C01) => {
                return Err(Failure::new("tables-loop", format!("interpreting the emitted tables on {inp:?} does not terminate (step bound exceeded)"), case()))
            }
            (TableRun::Accept, Which::C01) if !ea.accepted => {
                return Err(Failure::new("accepts-non-sentence", format!("the emitted tables accept {inp:?}, which is not derivable from the start symbol (Earley)"), case()))
            }
            (TableRun::Error(ix), Which::C01) if ea.accepted => {
                return Err(Failure::new("rejects-sentence", format!("the emitted tables reject {inp:?} at {ix:?}, but it is derivable from the start symbol (Earley)"), case()))
            }
            (TableRun::Error(ix), Which::C03) if !ea.accepted && *ix != want_ix => {
                return Err(Failure::new(
                    "wrong-error-token",
                    format!("the emitted tables stop at {ix:?} on {inp:?}; the first offending token is {want_ix:?} ({})", if all_productive { "Earley viable-prefix index" } else { "canonical LR(1) driver" }),
                    case(),
                ))
            }
            _ => {}
        }
        let nontrivial = match which {
            Which::C03 => !ea.accepted && (matches!(want_ix, Some(i) if i >= 1) || (want_ix.is_none() && !inp.is_empty())),
            _ => (sh.recursive || sh.nullable_nts > 0) && inp.len() >= 2,
        };
        if nontrivial {
            st.nontrivial(&("table-level", canon.as_str(), inp));
        }
    }
    st.class("table-level:grammars");
    Ok(())
}

/// Probe of the known finding `lr-epsilon-loop`: judges one (grammar, input) pair at table level.
pub fn table_level_probe(case: &Value) -> Result<(), Failure> {
    let text = case_text(case)?;
    let g = gcase_from_text(&text).map_err(|e| Failure::internal("bad-replay", e, case.clone()))?;
    let inp: Vec<u16> = case["failing_input"].as_array().map(|a| a.iter().filter_map(|x| x.as_u64().map(|n| n as u16)).collect()).unwrap_or_default();
    let Outcome::Ok(emitted_text) = outcome::generate(&g.text) else {
        return Err(Failure::internal("not-accepted", "kiki does not accept the probe grammar".into(), case.clone()));
    };
    let e = crate::emitted::read(&emitted_text).map_err(|m| Failure::internal("unreadable", m, case.clone()))?;
    let nt_col: std::collections::BTreeMap<&str, usize> = e.nt_cols.iter().map(|(n, c)| (n.as_str(), *c)).collect();
    match drive_emitted(&e, &nt_col, g.cfg.n_t, &inp) {
        TableRun::Diverged => Err(Failure::new("tables-loop", format!("interpreting the emitted tables on {inp:?} does not terminate (epsilon-reduction cycle)"), case.clone())),
        _ => Ok(()),
    }
}

fn first_errors(diag: &str) -> String {
    let mut out = String::new();
    let mut n = 0;
    for l in diag.lines() {
        if l.starts_with("error") {
            n += 1;
            if n > 3 {
                break;
            }
        }
        if n > 0 {
            out.push_str(l);
            out.push('\n');
        }
        if out.len() > 3000 {
            break;
        }
    }
    out
}

fn build_case(raw: &RawE2, which: Which, st: &mut Stats) -> Option<(E2Case, Analysis, cfg::Shape)> {
    let (mut spec, mut source) = gen::build(&raw.grammar);
    // a compile costs ~0.2 s: three of four grammars that turn out tiny (<= 5 LALR states, or an empty / {ε}
    // language) are replaced by an edited, conflict-repaired seed grammar built from the same raw value
    if raw.choices[1] % 4 != 0 {
        let c = spec.cfg();
        let tiny = match Analysis::new(&c) {
            Ok(a) => a.lalr.states.len() <= 5 || !a.sets.productive[c.start as usize] || a.sets.first[c.start as usize] == 0,
            Err(_) => false,
        };
        if tiny {
            let mut g2 = raw.grammar.clone();
            g2.source = 3;
            g2.seed_ix = g2.seed_ix.wrapping_add(raw.choices[2]);
            let (s2, src2) = gen::build(&g2);
            spec = s2;
            source = src2;
            st.class("gen:tiny-grammar-replaced-by-edited-seed");
        }
    }
    let cfg = spec.cfg();
    let scaled = matches!(source, gen::Source::SeedEdits | gen::Source::SeedEditsRepair) && gen::scaled_choice(&raw.grammar).is_some();
    if scaled {
        st.class("gen:scaled-family");
    }
    if !scaled && (cfg.n_n > 26 || cfg.rules.len() > 64) {
        st.discard("grammar too large for the compiled tier");
        return None;
    }
    let Ok(a) = Analysis::new(&cfg) else {
        st.discard("reference LR(1) collection exceeds cap");
        return None;
    };
    if !a.lalr_ok() {
        st.discard("grammar has LALR(1) conflicts (no parser to run)");
        return None;
    }
    let mut ch = Chooser::new(&raw.choices);
    // one case in three under an adversarial naming (helper names, template locals, letter-less names): behaviour
    // must not depend on what things are called
    let mut naming = if raw.choices[3] % 3 == 0 {
        st.class("naming:adversarial");
        let mut nch = Chooser::new(&raw.choices[4..]);
        super::hygiene::adversarial_naming(&spec, &mut nch).naming
    } else {
        Naming::conventional(&spec)
    };
    let payload: Vec<Payload> = (0..spec.n_terms)
        .map(|_| {
            let k = ch.pick(10);
            // position-carrying payloads dominate; `()` for some terminals
            match k {
                0 => Payload::Unit,
                1 | 2 | 3 => Payload::Usize,
                4 => Payload::Pos,
                5 => Payload::Str,
                6 => Payload::VecUsize,
                7 => Payload::OptUsize,
                8 => Payload::BoxUsize,
                _ => Payload::Usize,
            }
        })
        .collect();
    naming.term_types = payload.iter().map(|p| p.rtype()).collect();
    let text = crate::ast::render_plain(&spec::to_rfile(&spec, &naming).atoms());
    let g = GCase { spec: spec.clone(), source, cfg: cfg.clone(), naming: naming.clone(), text: text.clone() };
    let sh = classify(st, &g, &a);
    let mut inputs = inputs_for(&cfg, &a, &mut ch, which);
    exclude_lr_loops(&cfg, &a, &mut inputs, st);
    Some((E2Case { spec, naming, payload, text, inputs }, a, sh))
}

fn e2_test(ctx: &Ctx, raw: &RawE2, which: Which, st: &mut Stats) -> Result<(), Failure> {
    let Some((case, a, sh)) = build_case(raw, which, st) else { return Ok(()) };
    if !matches!(outcome::generate(&case.text), Outcome::Ok(_)) {
        st.discard("kiki rejects a grammar the reference finds conflict-free (C04 judges that)");
        return Ok(());
    }
    let expects = match judge_case(ctx, &case, which) {
        Ok(e) => e,
        Err(f) if f.internal && f.kind.starts_with("skip:") => {
            st.discard(if f.kind.contains("step-bound") { "reference driver exceeded its step bound" } else { "emitted module does not compile (C01/C05 judge that)" });
            return Ok(());
        }
        Err(f) => return Err(f),
    };
    let cfgc = cfg::canon(&case.spec.cfg());
    let n_acc = expects.iter().filter(|e| matches!(e, Expect::Accept(_))).count();
    st.class_n("inputs:accepted", n_acc as u64);
    st.class_n("inputs:rejected", (expects.len() - n_acc) as u64);
    st.extra.entry("token-strings-run".into()).and_modify(|x| *x += expects.len() as u64 * 2).or_insert(expects.len() as u64 * 2);
    match which {
        Which::C01 => {
            let interesting_grammar = sh.recursive || sh.nullable_nts > 0;
            let has_long_accept = case.inputs.iter().zip(&expects).any(|(i, e)| matches!(e, Expect::Accept(_)) && i.len() >= 3);
            let has_late_reject = expects.iter().any(|e| matches!(e, Expect::Reject(Some(i)) if *i >= 1) || matches!(e, Expect::Reject(None)));
            if interesting_grammar && has_long_accept && has_late_reject {
                for inp in &case.inputs {
                    st.nontrivial(&(cfgc.as_str(), inp));
                }
                if st.want_sample() {
                    st.sample(json!({"grammar": case.text, "inputs": case.inputs.len(), "accepted": n_acc, "lalr_states": a.lalr.states.len(),
                        "example_accepted": case.inputs.iter().zip(&expects).filter(|(i, e)| matches!(e, Expect::Accept(_)) && i.len() >= 3).map(|(i, _)| i.clone()).next()}));
                }
            }
        }
        Which::C02 => {
            let origin = case.spec.rule_origin();
            for (inp, e) in case.inputs.iter().zip(&expects) {
                if let Expect::Accept(tree) = e {
                    if tree_nontrivial(tree, &case.spec, &origin, &case.payload) {
                        st.nontrivial(&(cfgc.as_str(), inp));
                        if st.want_sample() {
                            st.sample(json!({"grammar": case.text, "input": inp, "tree": e2::expected_sexpr(tree, &case.spec, &case.naming, &case.payload, 0)}));
                        }
                    }
                }
            }
        }
        Which::C03 => {
            for (inp, e) in case.inputs.iter().zip(&expects) {
                match e {
                    Expect::Reject(Some(i)) if *i >= 1 => {
                        st.nontrivial(&(cfgc.as_str(), inp));
                        st.class("reject:token-at-index>=1");
                    }
                    Expect::Reject(Some(_)) => st.class("reject:first-token"),
                    Expect::Reject(None) if !inp.is_empty() => {
                        st.nontrivial(&(cfgc.as_str(), inp));
                        st.class("reject:end-of-input-after-nonempty-prefix");
                    }
                    _ => {}
                }
            }
            if st.want_sample() {
                if let Some((inp, e)) = case.inputs.iter().zip(&expects).find(|(_, e)| matches!(e, Expect::Reject(Some(i)) if *i >= 2)) {
                    st.sample(json!({"grammar": case.text, "input": inp, "expected": format!("{e:?}")}));
                }
            }
        }
    }
    Ok(())
}

fn tree_nontrivial(tree: &Tree, spec: &Spec, origin: &[(usize, usize)], payload: &[Payload]) -> bool {
    if tree.depth() < 3 {
        return false;
    }
    let mut has_skip = false;
    let mut used_terms: Vec<u16> = vec![];
    fn walk(t: &Tree, spec: &Spec, origin: &[(usize, usize)], has_skip: &mut bool, used_terms: &mut Vec<u16>) {
        if let Tree::Node { rule, children } = t {
            let (n, j) = origin[*rule];
            for (f, c) in spec.nts[n].variants[j].fields.iter().zip(children) {
                if !f.used {
                    *has_skip = true;
                } else {
                    match c {
                        Tree::Leaf { term, .. } => used_terms.push(*term),
                        _ => walk(c, spec, origin, has_skip, used_terms),
                    }
                }
            }
        }
    }
    walk(tree, spec, origin, &mut has_skip, &mut used_terms);
    used_terms.sort();
    let dup = used_terms.windows(2).any(|w| w[0] == w[1] && payload[w[0] as usize].carries_position());
    has_skip && dup
}

pub fn e2_replay(ctx: &Ctx, case: &Value, which: Which) -> Result<(), Failure> {
    let text = case_text(case)?;
    let g = gcase_from_text(&text).map_err(|e| Failure::internal("bad-replay", e, case.clone()))?;
    let payload: Vec<Payload> = match case["payload"].as_array() {
        Some(a) => a.iter().map(|v| payload_from_name(v.as_str().unwrap_or(""))).collect(),
        None => vec![Payload::Usize; g.spec.n_terms],
    };
    let inputs: Vec<Vec<u16>> = match case["failing_input"].as_array() {
        Some(a) => vec![a.iter().filter_map(|x| x.as_u64().map(|n| n as u16)).collect()],
        None => case["inputs"]
            .as_array()
            .map(|a| a.iter().map(|v| v.as_array().map(|x| x.iter().filter_map(|y| y.as_u64().map(|n| n as u16)).collect()).unwrap_or_default()).collect())
            .unwrap_or_default(),
    };
    if payload.len() != g.spec.n_terms {
        return Err(Failure::internal("bad-replay", "payload list does not match the terminals".into(), case.clone()));
    }
    let c = E2Case { spec: g.spec, naming: g.naming, payload, text, inputs };
    judge_case(ctx, &c, which).map(|_| ())
}

/// Delta-debugging of the failing token string on the already shrunk grammar: all one-token deletions and
/// both halves are judged in one compiled client (shortest first); a few rounds.
fn minimise_failing_input(ctx: &Ctx, f: Failure, which: Which) -> Failure {
    let Some(arr) = f.case["failing_input"].as_array() else { return f };
    let mut best: Vec<u16> = arr.iter().filter_map(|x| x.as_u64().map(|n| n as u16)).collect();
    let Ok(text) = case_text(&f.case) else { return f };
    let Ok(g) = gcase_from_text(&text) else { return f };
    let payload: Vec<Payload> = match f.case["payload"].as_array() {
        Some(a) => a.iter().map(|v| payload_from_name(v.as_str().unwrap_or(""))).collect(),
        None => return f,
    };
    if payload.len() != g.spec.n_terms {
        return f;
    }
    let mut current = f;
    for _ in 0..8 {
        if best.len() <= 1 {
            break;
        }
        let mut cands: Vec<Vec<u16>> = vec![best[..best.len() / 2].to_vec(), best[best.len() / 2..].to_vec()];
        for i in 0..best.len() {
            let mut c = best.clone();
            c.remove(i);
            cands.push(c);
        }
        cands.sort_by_key(|c| c.len());
        cands.dedup();
        let c = E2Case { spec: g.spec.clone(), naming: g.naming.clone(), payload: payload.clone(), text: text.clone(), inputs: cands };
        match judge_case(ctx, &c, which) {
            Err(nf) if !nf.internal && nf.kind == current.kind => {
                let Some(a) = nf.case["failing_input"].as_array() else { break };
                let ni: Vec<u16> = a.iter().filter_map(|x| x.as_u64().map(|n| n as u16)).collect();
                if ni.len() >= best.len() {
                    break;
                }
                best = ni;
                let mut nf = nf;
                // keep the replay small: only the minimal input
                nf.case["inputs"] = json!([best.clone()]);
                current = nf;
            }
            _ => break,
        }
    }
    current
}

const RULES: [&str; 3] = [
    "accepted grammars from the 4 mixed sources (conventional names; payload types usize, crate::Pos, String, (), Vec<usize>, Option<usize>, Box<usize>); the emitted text is compiled unmodified with rustc and run on: all token strings up to a length bound (<= 400 strings), 24 random derivations (<= 64 tokens), 1-edit mutants and prefixes of sentences, random strings — each parsed twice with different payload values through a lazy iterator under catch_unwind, 2 GiB memory limit and a watchdog. Oracle: Earley membership in the CFG read off the declarations, cross-checked with the reference canonical-LR(1) driver. Non-trivial = a string judged for a grammar that is recursive or has a nullable nonterminal and whose string set has an accepted string of length >= 3 and a rejected string that fails after its first token; distinct = (canonical grammar, string).",
    "accepted grammars with every fieldset pattern (named / tuple / empty, any mask of used and `_` fields, structs and enum variants) and position-carrying payloads; sentences from 40 random derivations plus short enumerated strings; a generated client destructures every emitted type exhaustively (no `..`, no wildcard arm) and prints an s-expression which must equal the same rendering of the reference derivation tree (unique: LALR(1) grammars are unambiguous) with `_` fields removed and payload = position of the matched token (two payload offsets). The reference tree's leaves are checked to be the input left to right, each token once. Non-trivial = tree depth >= 3 with >= 1 `_` field and >= 2 used payload fields of the same terminal kind; distinct = (canonical grammar, sentence).",
    "accepted grammars, strings biased to non-sentences (1-edit mutants and proper prefixes of sentences, enumerated and random strings) fed through a hand-written lazy counting iterator. Oracle: error index = Earley viable-prefix index when every nonterminal is productive (must agree with the reference canonical LR(1) driver), the canonical LR(1) driver's index otherwise; the Err value must be the token object at that index (kind and position-carrying payload), exactly index+1 items pulled; Err(None) exactly for viable proper prefixes. Non-trivial = rejected string with error index >= 1, or Err(None) on a non-empty proper prefix; distinct = (canonical grammar, string).",
];

pub fn run(ctx: &Ctx, which: Which) -> i32 {
    let (rule, label, regress_dir) = match which {
        Which::C01 => (RULES[0], "C01", "C01"),
        Which::C02 => (RULES[1], "C02", "C02"),
        Which::C03 => (RULES[2], "C03", "C03"),
    };
    let mut rep = Report::new(ctx, rule);
    rep.assumptions = vec![
        "rustc 1.95 (the toolchain that builds the repository) compiles the emitted text; the client is generated by the harness".into(),
        "reference = Earley recogniser and canonical LR(1) driver on the CFG read off the declarations; a disagreement between them is reported as inconclusive, never as a violation".into(),
        "grammars are bounded (<= 26 nonterminals, <= 64 rules) except the scaled families (1 case in 32: <= 300 nonterminals, <= 120 terminals, > 256 states); enumerated token strings <= 64 tokens plus up to three long sentences".into(),
    ];
    // regressions
    let dir = ctx.root.join("corpus").join("regress").join(regress_dir);
    if let Ok(rd) = std::fs::read_dir(&dir) {
        let mut files: Vec<_> = rd.filter_map(|e| e.ok()).map(|e| e.path()).filter(|p| p.extension().map_or(false, |x| x == "json")).collect();
        files.sort();
        for p in files {
            if let Ok(v) = std::fs::read_to_string(&p).map_err(|_| ()).and_then(|t| serde_json::from_str::<Value>(&t).map_err(|_| ())) {
                let case = if v.get("case").is_some() { v["case"].clone() } else { v };
                rep.regress_replayed += 1;
                rep.stats.evaluations += 1;
                if let Err(f) = e2_replay(ctx, &case, which) {
                    if f.internal {
                        rep.internal.push(f)
                    } else {
                        rep.violations.push(f)
                    }
                }
            }
        }
    }
    if which == Which::C01 {
        for f in load_findings(&ctx.root).into_iter().filter(|f| f.property == "C01" && f.status == "open") {
            match table_level_probe(&f.probe) {
                Ok(()) => rep.notes.push(format!("known finding {} no longer reproduces on its probe", f.id)),
                Err(fl) if fl.internal => rep.internal.push(fl),
                Err(fl) => {
                    if fl.signature().contains(&f.signature) {
                        rep.known_lines.push(format!("{} [{}]", f.what, f.id));
                    } else {
                        rep.violations.push(fl);
                    }
                }
            }
        }
    }
    let mut c2 = ctx.clone();
    c2.shrink_iters = 48;
    let cases = match which {
        // C02 has no table-level half: trees only exist in the compiled parser
        Which::C02 => ctx.budget(2_000, 24_000),
        _ => ctx.budget(1_000, 16_000),
    };
    let out = run_sharded(&c2, label, cases, || raw_e2(which), |raw, st| e2_test(ctx, raw, which, st));
    rep.absorb("E2-rustc-compiled-parsers", out);
    let vs: Vec<Failure> = std::mem::take(&mut rep.violations);
    rep.violations = vs.into_iter().map(|f| minimise_failing_input(ctx, f, which)).collect();
    if which != Which::C02 {
        let out = run_sharded(ctx, &format!("{label}-tables"), ctx.budget(100_000, 2_000_000), gen::raw_grammar, |raw, st| table_level_test(raw, which, st));
        rep.absorb("E1-table-level", out);
    }
    quota_check(&mut rep, &["inputs:accepted", "inputs:rejected", "shape:recursive", "shape:has-nullable-nonterminal"]);
    rep.finish()
}
