//! E2 — compiled-parser engine: the emitted text is written verbatim to a file,
//! compiled with plain `rustc` together with a generated client, run under a
//! memory limit and a watchdog, and its result lines are read back.

use crate::ast::{Id, RType};
use crate::cfg::Tree;
use crate::spec::{Form, Naming, Spec, Sym};
use std::path::{Path, PathBuf};
use std::process::{Command, Stdio};
use std::sync::atomic::{AtomicU64, Ordering};
use std::time::{Duration, Instant};

static COUNTER: AtomicU64 = AtomicU64::new(0);

/// Scratch directory under /verif/.work, removed on drop.
pub struct Scratch {
    pub dir: PathBuf,
}

impl Scratch {
    pub fn new(root: &Path, label: &str) -> std::io::Result<Scratch> {
        let n = COUNTER.fetch_add(1, Ordering::Relaxed);
        let dir = root.join(".work").join(format!("{label}-{}-{n}", std::process::id()));
        std::fs::create_dir_all(&dir)?;
        Ok(Scratch { dir })
    }
}

impl Drop for Scratch {
    fn drop(&mut self) {
        let _ = std::fs::remove_dir_all(&self.dir);
    }
}

#[derive(Clone, Copy, Debug, PartialEq, Eq, Hash)]
pub enum Payload {
    Usize,
    Pos,
    Str,
    Unit,
    VecUsize,
    OptUsize,
    BoxUsize,
}

pub const PAYLOADS: [Payload; 7] = [Payload::Usize, Payload::Pos, Payload::Str, Payload::Unit, Payload::VecUsize, Payload::OptUsize, Payload::BoxUsize];

impl Payload {
    pub fn rtype(self) -> RType {
        let p = |s: &[&str]| s.iter().map(|x| Id::new(x)).collect::<Vec<_>>();
        match self {
            Payload::Usize => RType::Path(p(&["usize"])),
            Payload::Pos => RType::Path(p(&["crate", "Pos"])),
            Payload::Str => RType::Path(p(&["String"])),
            Payload::Unit => RType::Unit,
            Payload::VecUsize => RType::Generic(p(&["Vec"]), vec![RType::Path(p(&["usize"]))]),
            Payload::OptUsize => RType::Generic(p(&["Option"]), vec![RType::Path(p(&["usize"]))]),
            Payload::BoxUsize => RType::Generic(p(&["std", "boxed", "Box"]), vec![RType::Path(p(&["usize"]))]),
        }
    }
    /// expression building the payload from position variable `i`
    fn mk(self) -> &'static str {
        match self {
            Payload::Usize => "i",
            Payload::Pos => "crate::Pos(i)",
            Payload::Str => "i.to_string()",
            Payload::Unit => "()",
            Payload::VecUsize => "vec![i]",
            Payload::OptUsize => "Some(i)",
            Payload::BoxUsize => "Box::new(i)",
        }
    }
    /// expression of type String showing payload reference `p`
    fn show(self) -> &'static str {
        match self {
            Payload::Usize => "format!(\"#{}\", p)",
            Payload::Pos => "format!(\"#{}\", p.0)",
            Payload::Str => "format!(\"#{}\", p)",
            Payload::Unit => "String::from(\"()\")",
            Payload::VecUsize => "format!(\"#{}\", p[0])",
            Payload::OptUsize => "format!(\"#{}\", p.unwrap())",
            Payload::BoxUsize => "format!(\"#{}\", **p)",
        }
    }
    pub fn carries_position(self) -> bool {
        self != Payload::Unit
    }
}

/// The s-expression the client prints for a derivation tree (same format computed by the harness from the
/// reference tree): `Name`, `Name(c,…)`, `Name{f=c,…}`, `Enum::Variant…`, payload `#<pos>` or `()`.
pub fn expected_sexpr(tree: &Tree, spec: &Spec, nm: &Naming, payload: &[Payload], offset: usize) -> String {
    let origin = spec.rule_origin();
    fn go(t: &Tree, spec: &Spec, nm: &Naming, payload: &[Payload], offset: usize, origin: &[(usize, usize)], out: &mut String) {
        match t {
            Tree::Leaf { term, pos } => {
                if payload[*term as usize].carries_position() {
                    out.push_str(&format!("#{}", pos + offset));
                } else {
                    out.push_str("()");
                }
            }
            Tree::Node { rule, children } => {
                let (n, j) = origin[*rule];
                let nt = &spec.nts[n];
                let fs = &nt.variants[j];
                if nt.is_enum {
                    out.push_str(&format!("{}::{}", nm.nts[n], nm.variants[n][j]));
                } else {
                    out.push_str(&nm.nts[n]);
                }
                if !fs.has_used() {
                    return;
                }
                let named = fs.form == Form::Named;
                out.push(if named { '{' } else { '(' });
                let mut first = true;
                for (k, (f, c)) in fs.fields.iter().zip(children).enumerate() {
                    if !f.used {
                        continue;
                    }
                    if !first {
                        out.push(',');
                    }
                    first = false;
                    if named {
                        out.push_str(&nm.fields[n][j][k]);
                        out.push('=');
                    }
                    go(c, spec, nm, payload, offset, origin, out);
                }
                out.push(if named { '}' } else { ')' });
            }
        }
    }
    let mut s = String::new();
    go(tree, spec, nm, payload, offset, &origin, &mut s);
    s
}

/// Generates the client crate root. Module name of the emitted parser is `m`.
pub fn client_source(spec: &Spec, nm: &Naming, payload: &[Payload], inputs: &[Vec<u16>], offsets: &[usize]) -> String {
    let mut s = String::new();
    s.push_str("#![allow(warnings)]\n");
    s.push_str("pub struct Pos(pub usize);\n");
    s.push_str("#[path = \"g.rs\"]\nmod m;\n");
    s.push_str("use std::cell::Cell;\nuse std::rc::Rc;\n\n");
    let tok = &nm.term_enum;
    // token constructors / observers
    s.push_str(&format!("fn mk(kind: u8, i: usize) -> m::{tok} {{\n    match kind {{\n"));
    for (t, tn) in nm.terms.iter().enumerate() {
        s.push_str(&format!("        {t} => m::{tok}::{tn}({}),\n", payload[t].mk()));
    }
    s.push_str("        _ => unreachable!(),\n    }\n}\n");
    if spec.n_terms == 0 {
        s.push_str(&format!("fn kind_of(t: &m::{tok}) -> usize {{ match *t {{}} }}\n"));
        s.push_str(&format!("fn pos_of(t: &m::{tok}) -> String {{ match *t {{}} }}\n"));
    } else {
        s.push_str(&format!("fn kind_of(t: &m::{tok}) -> usize {{\n    match t {{\n"));
        for (t, tn) in nm.terms.iter().enumerate() {
            s.push_str(&format!("        m::{tok}::{tn}(_) => {t},\n"));
        }
        s.push_str("    }\n}\n");
        s.push_str(&format!("fn pos_of(t: &m::{tok}) -> String {{\n    match t {{\n"));
        for (t, tn) in nm.terms.iter().enumerate() {
            s.push_str(&format!("        m::{tok}::{tn}(p) => {},\n", payload[t].show()));
        }
        s.push_str("    }\n}\n");
    }
    for (t, _) in nm.terms.iter().enumerate() {
        s.push_str(&format!("fn show_t{t}(p: &{}) -> String {{ {} }}\n", payload[t].rtype().render(), payload[t].show()));
    }
    // printers: exhaustive destructuring, no `..`, no wildcard arms
    for (n, nt) in spec.nts.iter().enumerate() {
        let name = &nm.nts[n];
        s.push_str(&format!("fn show_n{n}(v: &m::{name}) -> String {{\n"));
        let body = |j: usize, prefix: &str| -> (String, String) {
            // (pattern, expression)
            let fs = &nt.variants[j];
            let ctor = if nt.is_enum { format!("{name}::{}", nm.variants[n][j]) } else { name.clone() };
            if !fs.has_used() {
                return (format!("{prefix}"), format!("String::from(\"{ctor}\")"));
            }
            let named = fs.form == Form::Named;
            let mut pat = String::new();
            let mut parts: Vec<String> = vec![];
            for (k, f) in fs.fields.iter().enumerate() {
                if !f.used {
                    continue;
                }
                let var = format!("x{k}");
                if named {
                    pat.push_str(&format!("{}: {var}, ", nm.fields[n][j][k]));
                } else {
                    pat.push_str(&format!("{var}, "));
                }
                let child = match f.sym {
                    Sym::N(m) => format!("show_n{m}(&**{var})"),
                    Sym::T(t) => format!("show_t{t}({var})"),
                };
                if named {
                    parts.push(format!("format!(\"{}={{}}\", {child})", nm.fields[n][j][k]));
                } else {
                    parts.push(child);
                }
            }
            let (o, c) = if named { ("{{", "}}") } else { ("(", ")") };
            let pattern = if named { format!("{prefix} {{ {pat}}}") } else { format!("{prefix}({pat})") };
            let expr = format!("format!(\"{ctor}{o}{{}}{c}\", vec![{}].join(\",\"))", parts.join(", "));
            (pattern, expr)
        };
        if nt.is_enum {
            if nt.variants.is_empty() {
                s.push_str("    match *v {}\n");
            } else {
                s.push_str("    match v {\n");
                for j in 0..nt.variants.len() {
                    let (pat, expr) = body(j, &format!("m::{name}::{}", nm.variants[n][j]));
                    s.push_str(&format!("        {pat} => {expr},\n"));
                }
                s.push_str("    }\n");
            }
        } else {
            let (pat, expr) = body(0, &format!("m::{name}"));
            s.push_str(&format!("    let {pat} = v;\n    {expr}\n"));
        }
        s.push_str("}\n");
    }
    // lazy counting iterator
    s.push_str(&format!(
        r#"
struct Feed {{ kinds: &'static [u8], next: usize, pulled: Rc<Cell<usize>>, offset: usize }}
impl Iterator for Feed {{
    type Item = m::{tok};
    fn next(&mut self) -> Option<m::{tok}> {{
        if self.next < self.kinds.len() {{
            let i = self.next;
            self.next += 1;
            self.pulled.set(self.pulled.get() + 1);
            Some(mk(self.kinds[i], i + self.offset))
        }} else {{
            None
        }}
    }}
}}

fn run_one(idx: usize, kinds: &'static [u8], offset: usize) {{
    let pulled = Rc::new(Cell::new(0usize));
    let feed = Feed {{ kinds, next: 0, pulled: pulled.clone(), offset }};
    let r = std::panic::catch_unwind(std::panic::AssertUnwindSafe(|| m::parse(feed)));
    match r {{
        Ok(Ok(tree)) => println!("R {{idx}} {{offset}} OK {{}} pulled={{}}", show_n{start}(&tree), pulled.get()),
        Ok(Err(Some(t))) => println!("R {{idx}} {{offset}} ERR S {{}} {{}} pulled={{}}", kind_of(&t), pos_of(&t), pulled.get()),
        Ok(Err(None)) => println!("R {{idx}} {{offset}} ERR N pulled={{}}", pulled.get()),
        Err(_) => println!("R {{idx}} {{offset}} PANIC pulled={{}}", pulled.get()),
    }}
}}
"#,
        start = spec.start
    ));
    s.push_str("static INPUTS: &[&[u8]] = &[\n");
    for inp in inputs {
        s.push_str("    &[");
        for k in inp {
            s.push_str(&format!("{k},"));
        }
        s.push_str("],\n");
    }
    s.push_str("];\n");
    s.push_str(&format!(
        r#"
fn main() {{
    std::panic::set_hook(Box::new(|_| {{}}));
    let only: Option<usize> = std::env::args().nth(1).and_then(|a| a.parse().ok());
    for (i, inp) in INPUTS.iter().enumerate() {{
        if only.map_or(false, |o| o != i) {{ continue; }}
        println!("BEGIN {{i}}");
        for off in [{offs}] {{ run_one(i, inp, off); }}
    }}
    println!("DONE");
}}
"#,
        offs = offsets.iter().map(|o| o.to_string()).collect::<Vec<_>>().join(", ")
    ));
    s
}

#[derive(Debug)]
pub struct CompileResult {
    pub ok: bool,
    pub diagnostics: String,
    pub wall: Duration,
}

/// `rustc` on `main_file`; `metadata_only` type-checks without codegen.
pub fn rustc(dir: &Path, main_file: &str, out_name: &str, metadata_only: bool) -> CompileResult {
    let t = Instant::now();
    let mut cmd = Command::new("rustc");
    cmd.current_dir(dir).arg("--edition").arg("2021").arg("-C").arg("debuginfo=0").arg("--color").arg("never");
    if metadata_only {
        cmd.arg("--emit=metadata").arg("--crate-type").arg("lib");
    } else {
        cmd.arg("-C").arg("opt-level=0");
    }
    cmd.arg(main_file).arg("-o").arg(out_name);
    cmd.stdout(Stdio::null()).stderr(Stdio::piped());
    match cmd.output() {
        Ok(o) => CompileResult { ok: o.status.success(), diagnostics: String::from_utf8_lossy(&o.stderr).to_string(), wall: t.elapsed() },
        Err(e) => CompileResult { ok: false, diagnostics: format!("cannot run rustc: {e}"), wall: t.elapsed() },
    }
}

#[derive(Debug)]
pub enum RunResult {
    Finished(String),
    /// died (signal / nonzero) — stdout so far
    Died(String, String),
    Timeout(String),
}

pub fn run_binary(dir: &Path, name: &str, args: &[String], timeout: Duration, mem_limit: u64) -> RunResult {
    use std::os::unix::process::CommandExt;
    let mut cmd = Command::new(dir.join(name));
    cmd.args(args).current_dir(dir).stdout(Stdio::piped()).stderr(Stdio::null());
    unsafe {
        cmd.pre_exec(move || {
            let lim = libc::rlimit { rlim_cur: mem_limit, rlim_max: mem_limit };
            libc::setrlimit(libc::RLIMIT_AS, &lim);
            libc::prctl(libc::PR_SET_PDEATHSIG, libc::SIGKILL);
            Ok(())
        });
    }
    let mut child = match cmd.spawn() {
        Ok(c) => c,
        Err(e) => return RunResult::Died(String::new(), format!("spawn failed: {e}")),
    };
    let mut stdout = child.stdout.take().unwrap();
    let reader = std::thread::spawn(move || {
        let mut s = String::new();
        let _ = std::io::Read::read_to_string(&mut stdout, &mut s);
        s
    });
    let started = Instant::now();
    let status = loop {
        match child.try_wait() {
            Ok(Some(st)) => break Some(st),
            Ok(None) => {
                if started.elapsed() > timeout {
                    let _ = child.kill();
                    let _ = child.wait();
                    break None;
                }
                std::thread::sleep(Duration::from_millis(2));
            }
            Err(_) => break None,
        }
    };
    let out = reader.join().unwrap_or_default();
    match status {
        None => RunResult::Timeout(out),
        Some(st) if st.success() => RunResult::Finished(out),
        Some(st) => {
            use std::os::unix::process::ExitStatusExt;
            let how = match st.signal() {
                Some(sig) => format!("killed by signal {sig}"),
                None => format!("exit status {:?}", st.code()),
            };
            RunResult::Died(out, how)
        }
    }
}

/// One observed result line of the client.
#[derive(Clone, Debug, PartialEq, Eq)]
pub enum Obs {
    Ok { sexpr: String, pulled: usize },
    ErrSome { kind: usize, pos: String, pulled: usize },
    ErrNone { pulled: usize },
    Panic { pulled: usize },
}

/// Parses the client's stdout into observations keyed by (input index, offset).
pub fn parse_output(out: &str) -> (std::collections::BTreeMap<(usize, usize), Obs>, bool, Option<usize>) {
    let mut map = std::collections::BTreeMap::new();
    let mut done = false;
    let mut last_begin = None;
    for l in out.lines() {
        if l == "DONE" {
            done = true;
        } else if let Some(r) = l.strip_prefix("BEGIN ") {
            last_begin = r.parse().ok();
        } else if let Some(r) = l.strip_prefix("R ") {
            let mut it = r.splitn(4, ' ');
            let idx: usize = it.next().and_then(|x| x.parse().ok()).unwrap_or(usize::MAX);
            let off: usize = it.next().and_then(|x| x.parse().ok()).unwrap_or(usize::MAX);
            let tag = it.next().unwrap_or("");
            let rest = it.next().unwrap_or("");
            let pulled_of = |s: &str| -> usize { s.rsplit("pulled=").next().and_then(|x| x.trim().parse().ok()).unwrap_or(usize::MAX) };
            let obs = match tag {
                "OK" => {
                    let p = rest.rfind(" pulled=").unwrap_or(rest.len());
                    Obs::Ok { sexpr: rest[..p].to_string(), pulled: pulled_of(rest) }
                }
                "ERR" => {
                    if let Some(r2) = rest.strip_prefix("S ") {
                        let mut jt = r2.split(' ');
                        let kind = jt.next().and_then(|x| x.parse().ok()).unwrap_or(usize::MAX);
                        let pos = jt.next().unwrap_or("").to_string();
                        Obs::ErrSome { kind, pos, pulled: pulled_of(rest) }
                    } else {
                        Obs::ErrNone { pulled: pulled_of(rest) }
                    }
                }
                _ => Obs::Panic { pulled: pulled_of(rest) },
            };
            map.insert((idx, off), obs);
        }
    }
    (map, done, last_begin)
}
