#!/usr/bin/env bash
# Re-runs, on copies (tools/seeded_isolated.sh), for every seeded change the checks that caught it according to its
# checks_quick.json, and prints the ones that no longer report a violation.
cd "$(dirname "$0")/.."
for d in seeded/S*/; do
    n=$(basename $d)
    checks=$(python3 -c "
import json,sys
try: c=json.load(open('$d/checks_quick.json'))
except Exception: c={}
print(' '.join(k for k,v in sorted(c.items()) if v.get('exit')==1))")
    [ -z "$checks" ] && { echo "$n: no catching check recorded"; continue; }
    out=$(tools/seeded_isolated.sh $n $checks 2>&1)
    echo "$out" | while read -r line; do
        case "$line" in
            *exit=1*) ;;
            *) echo "REGRESSION? $n: $line" ;;
        esac
    done
    echo "$n: done ($(echo "$out" | grep -c 'exit=1') of $(echo $checks | wc -w) still caught)"
done
