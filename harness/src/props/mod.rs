//! One module per family of properties.

pub mod common;
pub mod compiled;
pub mod frontend;
pub mod hygiene;
pub mod lalr;
pub mod misc;
pub mod total;

use crate::engine::{Ctx, Failure};

pub fn run(ctx: &Ctx) -> i32 {
    match ctx.prop.as_str() {
        "C01" => compiled::run(ctx, compiled::Which::C01),
        "C02" => compiled::run(ctx, compiled::Which::C02),
        "C03" => compiled::run(ctx, compiled::Which::C03),
        "C04" => lalr::c04_run(ctx),
        "C05" => hygiene::c05_run(ctx),
        "C06" => hygiene::c06_run(ctx),
        "C07" => total::c07_run(ctx),
        "C14" => total::c14_run(ctx),
        "C08" => frontend::c08_run(ctx),
        "C09" => frontend::c09_run(ctx),
        "C10" => frontend::c10_run(ctx),
        "C16" => frontend::c16_run(ctx),
        "C11" => lalr::c11_run(ctx),
        "C12" => misc::c12_run(ctx),
        "C13" => misc::c13_run(ctx),
        "C15" => misc::c15_run(ctx),
        "C18" => misc::c18_run(ctx),
        "C17" => lalr::c17_run(ctx),
        other => {
            eprintln!("unknown property {other}");
            2
        }
    }
}

fn replay_fn(prop: &str) -> Option<fn(&serde_json::Value) -> Result<(), Failure>> {
    Some(match prop {
        "C01" | "C02" | "C03" | "C05" | "C06" => lalr::c04_replay, // placeholder: dispatched in `replay` (needs ctx)
        "C04" => lalr::c04_replay,
        "C07" => total::c07_replay,
        "C14" => total::c14_replay,
        "C08" => frontend::c08_replay,
        "C09" => frontend::c09_replay,
        "C10" => frontend::c10_replay,
        "C16" => frontend::c16_replay,
        "C11" => lalr::c11_replay,
        "C12" => misc::c12_replay,
        "C13" => misc::c13_replay,
        "C15" => misc::c15_replay,
        "C18" => misc::c18_replay,
        "C17" => lalr::c17_replay,
        _ => return None,
    })
}

/// Re-runs one saved case without any generator. Exit 0 = passes now, 1 = still violates.
pub fn replay(ctx: &Ctx, path: &str) -> i32 {
    let Some(f) = replay_fn(&ctx.prop) else {
        eprintln!("unknown property {}", ctx.prop);
        return 2;
    };
    let txt = match std::fs::read_to_string(path) {
        Ok(t) => t,
        Err(e) => {
            eprintln!("cannot read {path}: {e}");
            return 2;
        }
    };
    let v: serde_json::Value = match serde_json::from_str(&txt) {
        Ok(v) => v,
        Err(e) => {
            eprintln!("{path}: {e}");
            return 2;
        }
    };
    let case = if v.get("case").is_some() { v["case"].clone() } else { v };
    let result = match ctx.prop.as_str() {
        "C01" => compiled::e2_replay(ctx, &case, compiled::Which::C01),
        "C02" => compiled::e2_replay(ctx, &case, compiled::Which::C02),
        "C03" => compiled::e2_replay(ctx, &case, compiled::Which::C03),
        "C05" => hygiene::c05_replay(ctx, &case),
        "C06" => hygiene::c06_replay(ctx, &case),
        _ => f(&case),
    };
    match result {
        Ok(()) => {
            println!("REPLAY property={} result=pass", ctx.prop);
            0
        }
        Err(fl) if fl.internal => {
            println!("REPLAY property={} result=inconclusive {}", ctx.prop, fl.signature());
            eprintln!("{}", fl.detail);
            2
        }
        Err(fl) => {
            eprintln!("{}", fl.detail);
            println!("VIOLATION property={} replay={}", ctx.prop, path);
            1
        }
    }
}

pub fn worker(args: &[String]) -> i32 {
    total::worker(args)
}
