//! kiki's result mapped to plain data (so that checks never depend on kiki's
//! own Debug formatting or types).

use crate::engine::catch;
use kiki::{ByteIndex, KikiErr, Symbol};

#[derive(Debug)]
pub enum Outcome {
    Ok(String),
    Lex(usize, Option<char>),
    Parse(usize, String, usize),
    NoStart,
    MultipleStarts(Vec<usize>),
    NoTerminalEnum,
    MultipleTerminalEnums(Vec<usize>),
    NotUpper(usize),
    FieldNotLower(usize),
    NameClash(String, usize, usize),
    VariantNameClash(String, usize, usize),
    /// (is_terminal, name) per symbol
    VariantSeqClash(Vec<(bool, String)>, usize, usize),
    UndefinedNonterminal(String, usize),
    UndefinedTerminal(String, usize),
    TableConflict(Box<kiki::TableConflictErr>),
    Panic(String),
}

fn ix(b: ByteIndex) -> usize {
    b.0
}

pub fn symbol_pair(s: &Symbol) -> (bool, String) {
    match s {
        Symbol::Terminal(t) => (true, t.raw().to_string()),
        Symbol::Nonterminal(n) => (false, n.clone()),
    }
}

impl Outcome {
    pub fn from_result(r: Result<kiki::RustSrc, KikiErr>) -> Outcome {
        match r {
            Ok(s) => Outcome::Ok(s.0),
            Err(e) => match e {
                KikiErr::Lex(i, c) => Outcome::Lex(ix(i), c),
                KikiErr::Parse(a, s, b) => Outcome::Parse(ix(a), s, ix(b)),
                KikiErr::NoStartSymbol => Outcome::NoStart,
                KikiErr::MultipleStartSymbols(v) => Outcome::MultipleStarts(v.into_iter().map(ix).collect()),
                KikiErr::NoTerminalEnum => Outcome::NoTerminalEnum,
                KikiErr::MultipleTerminalEnums(v) => Outcome::MultipleTerminalEnums(v.into_iter().map(ix).collect()),
                KikiErr::SymbolOrTerminalEnumNameFirstLetterNotUppercase(p) => Outcome::NotUpper(ix(p)),
                KikiErr::FieldFirstLetterNotLowercase(p) => Outcome::FieldNotLower(ix(p)),
                KikiErr::NameClash(n, a, b) => Outcome::NameClash(n, ix(a), ix(b)),
                KikiErr::NonterminalEnumVariantNameClash(n, a, b) => Outcome::VariantNameClash(n, ix(a), ix(b)),
                KikiErr::NonterminalEnumVariantSymbolSequenceClash(s, a, b) => {
                    Outcome::VariantSeqClash(s.iter().map(symbol_pair).collect(), ix(a), ix(b))
                }
                KikiErr::UndefinedNonterminal(n, p) => Outcome::UndefinedNonterminal(n, ix(p)),
                KikiErr::UndefinedTerminal(n, p) => Outcome::UndefinedTerminal(n.raw().to_string(), ix(p)),
                KikiErr::TableConflict(b) => Outcome::TableConflict(b),
            },
        }
    }

    pub fn stage(&self) -> &'static str {
        match self {
            Outcome::Ok(_) => "ok",
            Outcome::Lex(..) => "lex-error",
            Outcome::Parse(..) => "parse-error",
            Outcome::TableConflict(_) => "table-conflict",
            Outcome::Panic(_) => "panic",
            _ => "validation-error",
        }
    }

    pub fn is_validation_error(&self) -> bool {
        self.stage() == "validation-error"
    }

    /// Short description without the (large) payloads.
    pub fn brief(&self) -> String {
        match self {
            Outcome::Ok(s) => format!("Ok({} bytes)", s.len()),
            Outcome::TableConflict(e) => format!("TableConflict(state {})", e.state_index.0),
            other => format!("{other:?}"),
        }
    }
}

/// `kiki::generate` under catch_unwind.
pub fn generate(src: &str) -> Outcome {
    crate::engine::note_current_input(Some(src));
    let r = generate_inner(src);
    crate::engine::note_current_input(None);
    r
}

fn generate_inner(src: &str) -> Outcome {
    match catch(|| kiki::generate(src)) {
        Ok(r) => Outcome::from_result(r),
        Err(msg) => Outcome::Panic(msg),
    }
}
