//! R3 — reference static validator: the set of all well-formedness violations
//! present in a (syntactically valid, position-annotated) file, and the test
//! whether a reported error truthfully describes one of them
//! (DESIGN.md Appendix C).

use crate::ast::*;
use crate::outcome::Outcome;
use std::collections::BTreeMap;

#[derive(Clone, Debug, PartialEq, Eq, PartialOrd, Ord)]
pub enum Viol {
    NoStart,
    MultipleStarts(Vec<usize>),
    NoTerminalEnum,
    MultipleTerminalEnums(Vec<usize>),
    UndefinedNonterminal(String, usize),
    UndefinedTerminal(String, usize),
    /// name, every position at which a top-level definition of that name occurs (>= 2)
    NameClash(String, Vec<usize>),
    /// variant name, positions (>= 2) within one enum
    VariantNameClash(String, Vec<usize>),
    /// symbol sequence, positions (>= 2) of the variant names within one enum
    VariantSeqClash(Vec<(bool, String)>, Vec<usize>),
    NotUpper(usize),
    FieldNotLower(usize),
}

impl Viol {
    pub fn kind(&self) -> &'static str {
        match self {
            Viol::NoStart => "NoStartSymbol",
            Viol::MultipleStarts(_) => "MultipleStartSymbols",
            Viol::NoTerminalEnum => "NoTerminalEnum",
            Viol::MultipleTerminalEnums(_) => "MultipleTerminalEnums",
            Viol::UndefinedNonterminal(..) => "UndefinedNonterminal",
            Viol::UndefinedTerminal(..) => "UndefinedTerminal",
            Viol::NameClash(..) => "NameClash",
            Viol::VariantNameClash(..) => "NonterminalEnumVariantNameClash",
            Viol::VariantSeqClash(..) => "NonterminalEnumVariantSymbolSequenceClash",
            Viol::NotUpper(_) => "SymbolOrTerminalEnumNameFirstLetterNotUppercase",
            Viol::FieldNotLower(_) => "FieldFirstLetterNotLowercase",
        }
    }
}

fn first_letter(name: &str) -> Option<char> {
    name.chars().find(|c| c.is_ascii_alphabetic())
}

fn sym_key(s: &RSym) -> (bool, String) {
    match s {
        RSym::T(i) => (true, i.name.clone()),
        RSym::N(i) => (false, i.name.clone()),
    }
}

pub fn violations(file: &RFile) -> Vec<Viol> {
    let mut v = vec![];
    let starts = file.start_items();
    let terms = file.terminal_items();
    if starts.is_empty() {
        v.push(Viol::NoStart);
    }
    if starts.len() > 1 {
        v.push(Viol::MultipleStarts(starts.iter().map(|i| i.pos).collect()));
    }
    if terms.is_empty() {
        v.push(Viol::NoTerminalEnum);
    }
    if terms.len() > 1 {
        v.push(Viol::MultipleTerminalEnums(
            terms
                .iter()
                .map(|t| match t {
                    RItem::Terminal { name, .. } => name.pos,
                    _ => unreachable!(),
                })
                .collect(),
        ));
    }
    // definitions
    let mut nt_defs: BTreeMap<String, Vec<usize>> = BTreeMap::new();
    let mut t_defs: BTreeMap<String, Vec<usize>> = BTreeMap::new();
    let mut all_defs: BTreeMap<String, Vec<usize>> = BTreeMap::new();
    for it in &file.items {
        match it {
            RItem::Struct { name, .. } | RItem::Enum { name, .. } => {
                nt_defs.entry(name.name.clone()).or_default().push(name.pos);
                all_defs.entry(name.name.clone()).or_default().push(name.pos);
            }
            RItem::Terminal { name, variants, .. } => {
                all_defs.entry(name.name.clone()).or_default().push(name.pos);
                for (vn, _) in variants {
                    t_defs.entry(vn.name.clone()).or_default().push(vn.pos);
                    all_defs.entry(vn.name.clone()).or_default().push(vn.pos);
                }
            }
            RItem::Start(_) => {}
        }
    }
    for (n, ps) in &all_defs {
        if ps.len() > 1 {
            v.push(Viol::NameClash(n.clone(), ps.clone()));
        }
    }
    // references
    for s in &starts {
        if !nt_defs.contains_key(&s.name) {
            v.push(Viol::UndefinedNonterminal(s.name.clone(), s.pos));
        }
    }
    let check_fs = |fs: &RFieldset, v: &mut Vec<Viol>| {
        for s in fs.symbols() {
            match s {
                RSym::N(i) => {
                    if !nt_defs.contains_key(&i.name) {
                        v.push(Viol::UndefinedNonterminal(i.name.clone(), i.pos));
                    }
                }
                RSym::T(i) => {
                    if !t_defs.contains_key(&i.name) {
                        v.push(Viol::UndefinedTerminal(i.name.clone(), i.pos));
                    }
                }
            }
        }
        if let RFieldset::Named(fields) = fs {
            for (n, _) in fields {
                if let Some(id) = n {
                    if let Some(c) = first_letter(&id.name) {
                        if !c.is_ascii_lowercase() {
                            v.push(Viol::FieldNotLower(id.pos));
                        }
                    }
                }
            }
        }
    };
    let upper = |id: &Id, v: &mut Vec<Viol>| {
        if let Some(c) = first_letter(&id.name) {
            if !c.is_ascii_uppercase() {
                v.push(Viol::NotUpper(id.pos));
            }
        }
    };
    for it in &file.items {
        match it {
            RItem::Start(_) => {}
            RItem::Struct { name, fs, .. } => {
                upper(name, &mut v);
                check_fs(fs, &mut v);
            }
            RItem::Enum { name, variants, .. } => {
                upper(name, &mut v);
                let mut by_name: BTreeMap<String, Vec<usize>> = BTreeMap::new();
                let mut by_seq: BTreeMap<Vec<(bool, String)>, Vec<usize>> = BTreeMap::new();
                for (vn, fs) in variants {
                    upper(vn, &mut v);
                    check_fs(fs, &mut v);
                    by_name.entry(vn.name.clone()).or_default().push(vn.pos);
                    by_seq.entry(fs.symbols().into_iter().map(sym_key).collect()).or_default().push(vn.pos);
                }
                for (n, ps) in by_name {
                    if ps.len() > 1 {
                        v.push(Viol::VariantNameClash(n, ps));
                    }
                }
                for (s, ps) in by_seq {
                    if ps.len() > 1 {
                        v.push(Viol::VariantSeqClash(s, ps));
                    }
                }
            }
            RItem::Terminal { name, variants, .. } => {
                upper(name, &mut v);
                for (vn, _) in variants {
                    upper(vn, &mut v);
                }
            }
        }
    }
    v.sort();
    v.dedup();
    v
}

fn two_distinct_in(a: usize, b: usize, ps: &[usize]) -> bool {
    a != b && ps.contains(&a) && ps.contains(&b)
}

fn distinct_subset(got: &[usize], all: &[usize]) -> bool {
    let mut g = got.to_vec();
    g.sort();
    g.dedup();
    g.len() == got.len() && got.len() >= 2 && got.iter().all(|p| all.contains(p))
}

/// Does the reported validation error truthfully describe one of the violations present?
pub fn admissible(out: &Outcome, viols: &[Viol]) -> bool {
    viols.iter().any(|v| match (out, v) {
        (Outcome::NoStart, Viol::NoStart) => true,
        (Outcome::NoTerminalEnum, Viol::NoTerminalEnum) => true,
        (Outcome::MultipleStarts(ps), Viol::MultipleStarts(all)) => distinct_subset(ps, all),
        (Outcome::MultipleTerminalEnums(ps), Viol::MultipleTerminalEnums(all)) => distinct_subset(ps, all),
        (Outcome::UndefinedNonterminal(n, p), Viol::UndefinedNonterminal(m, q)) => n == m && p == q,
        (Outcome::UndefinedTerminal(n, p), Viol::UndefinedTerminal(m, q)) => n == m && p == q,
        (Outcome::NameClash(n, a, b), Viol::NameClash(m, ps)) => n == m && two_distinct_in(*a, *b, ps),
        (Outcome::VariantNameClash(n, a, b), Viol::VariantNameClash(m, ps)) => n == m && two_distinct_in(*a, *b, ps),
        (Outcome::VariantSeqClash(s, a, b), Viol::VariantSeqClash(t, ps)) => s == t && two_distinct_in(*a, *b, ps),
        (Outcome::NotUpper(p), Viol::NotUpper(q)) => p == q,
        (Outcome::FieldNotLower(p), Viol::FieldNotLower(q)) => p == q,
        _ => false,
    })
}
